package main

import (
	"fmt"
	"go/ast"
	"go/constant"
	"go/token"
	"go/types"
	"regexp"
	"sort"
	"strconv"
	"strings"

	rast "github.com/open-policy-agent/opa/ast"
	"golang.org/x/tools/go/ssa"
)

// Clauses shared between properties.  A single defect usually breaks several properties at once (a CLI that edits the
// data file before the library sees it breaks "the CLI emits the library's output", "unreadable data yields an error" and
// "verdicts do not depend on the serialisation"); each property's check has to report it on its own, so the rule that
// decides the clause is run under every property it is a necessary condition of.
func init() {
	extras["C01"] = func(c *Ctx) {
		// the IRIs of the target class and of every property of the formula are resolved from this profile's prefixes only
		c.R.Rule("C01.R10", "compact IRIs of the formula are resolved in a context built from the defaults and this profile only (shared with C02.P9 / C15.O3)", 1)
		prefixResolution(c, "C01.R10")
		c.Borrow("C02", "C02.P8", "C01.R11", "generated rule names are unique within a policy: the fresh-name counter is never reset while a compilation may be running (two rules with one name are silently unioned, so a constraint on one property sees another's values)", 1, nil)
		everyTypeIndexed(c, "C01.R15")
		c01OwnPathInConstraints(c)
		c01ExactValueText(c)
		c01IndependentKeys(c)
		c.Borrow("C07", "C07.H1", "C01.R12", "no quantified-variable name is also a local name fixed by a template (the two would be unified, and the nodes under that variable count as satisfying)", 3, nil)
	}
	extras["C02"] = func(c *Ctx) {
		exactExpansion(c, "C02.P12")
		c02ReferencedNodesIndexed(c)
		c.Borrow("C16", "C16.X9", "C02.P14", "no parse result is kept across calls: what a path string means does not depend on which strings were parsed before (a cache keyed by a normalised spelling confuses `a.b/c.d`, one IRI, with `a.b / c.d`, a sequence)", 1, nil)
		c02ActionsKeepOperands(c)
		c.Borrow("C05", "C05.N1", "C02.P10", "every node of the document is a node of the index the paths are evaluated on: the input is flattened unconditionally (embedded and split node objects are hoisted and merged) before it is indexed", 5, nil)
	}
	extras["C03"] = func(c *Ctx) {
		allLevelRules(c, "C03.L9")
		yamlAliasesRejected(c, "C03.L10")
		c.Borrow("C09", "C09.S1", "C03.L8", "the public entry points hand the caller's configurations to the report builder unchanged (pass-through wrappers)", 3, func(o Obligation) bool {
			return strings.HasPrefix(o.Construct, "pkg.")
		})
	}
	extras["C04"] = func(c *Ctx) {
		noCrossCallState(c, "C04.E9", "no outcome of a validation survives a call in a package-level variable", "a later call with the same unreadable data can be answered from the remembered entry with no error")
		c.Borrow("C18", "C18.W3", "C04.E10", "in the command-line front end a failed read ends with a non-zero exit status and nothing on stdout", 4, nil)
		c.Borrow("C18", "C18.W5", "C04.E8", "the command-line front end hands the library the data file's content as read (it is the library that decides whether the text is readable)", 1, nil)
	}
	extras["C05"] = func(c *Ctx) {
		c.Borrow("C18", "C18.W5", "C05.N6", "the command-line front end hands the library the data file's bytes as read (no re-encoding, line splitting or trimming that depends on how the document is laid out)", 1, nil)
		c05MessageValues(c)
		c05PositionalAccess(c)
		everyTypeIndexed(c, "C05.N10")
		c.Borrow("C02", "C02.P5", "C05.N7", "values are compared and counted as sets: only uniqueValues reads them as an array (an array keeps the document's value order and duplicates, which differ between serialisations)", 1, func(o Obligation) bool {
			return o.Construct == "array-consumers"
		})
	}
	extras["C06"] = func(c *Ctx) {
		c.Borrow("C09", "C09.S2", "C06.D7", "no package-level state is written in reach of the validation entry points (a shared scratch buffer included)", 1, nil)
		c.Borrow("C10", "C10.G6", "C06.D5", "no package-level variable holds a mutable object of a dependency (a shared buffer or cache makes the output depend on what other calls are doing)", 1, nil)
		c.R.Rule("C06.D8", "no compilation writes into the shared default prefix table: a later call would resolve prefixes with what an earlier profile declared", 1)
		prefixResolution(c, "C06.D8")
		c.Borrow("C18", "C18.W1", "C06.D6", "the command-line front end truncates the output file it writes (a re-run over a longer earlier report must yield the same bytes as a first run)", 1, nil)
	}
	extras["C07"] = func(c *Ctx) {
		c12DegenerateProfiles(c, "", "C07.H11")
		allLevelRules(c, "C07.H12")
		c.Borrow("C16", "C16.X1", "C07.H13", "the path parser is called without options: no expression budget or alternative entry rule makes a well-formed path fail", 1, nil)
		c16RuntimeConstants(c, "", "C07.H14", "C07.H16")
		c.R.Rule("C07.H17", "whether a profile compiles depends on that profile alone: no compilation writes its prefixes into the shared default table (a later profile would meet foreign bindings, and two compilations at once abort the process)", 1)
		prefixResolution(c, "C07.H17")
		c07AssertionsTotal(c)
	}
	extras["C08"] = func(c *Ctx) {
		c08CompileErrors(c)
		c08PrintCallsKept(c)
		c08EmbeddedCodeWhole(c)
		c08WrittenModuleSearched(c)
	}
	extras["C09"] = func(c *Ctx) {
		c.Borrow("C06", "C06.D1", "C09.S4", "no map iteration order reaches the report: repeated validations through one compiled profile give the same report as a fresh one", 1, nil)
	}
	extras["C18"] = func(c *Ctx) {
		c18LibraryIsSilent(c)
		c18ArgumentCounts(c)
		c18CommandsDispatched(c)
		c18AbsentFileCreated(c)
		c.R.Rule("C18.W10", "what the library returns for two texts does not depend on the profiles compiled earlier in the process (a fresh command-line process has compiled none): the shared default prefix table is copied, never written", 1)
		prefixResolution(c, "C18.W10")
		c.Borrow("C09", "C09.S1", "C18.W12", "the public entry points hand the caller's texts and configurations to the validator unchanged: the command-line front end calls the validator directly, so anything the public wrapper does to a text first (a byte order mark stripped, blanks trimmed) makes the library's answer differ from what the command prints", 3, func(o Obligation) bool {
			return strings.HasPrefix(o.Construct, "pkg.")
		})
		c.Borrow("C06", "C06.D1", "C18.W11", "no map iteration order reaches what the commands print: the normalised input and the policy are the same text on every run", 1, nil)
	}
	extras["C16"] = func(c *Ctx) {
		c16Backtracking(c)
		c16RuntimeConstants(c, "C16.X11", "C16.X12", "C16.X13")
	}
	extras["C13"] = func(c *Ctx) {
		c13VerbatimNames(c)
		c.Borrow("C18", "C18.W2", "C13.Q7", "the command-line front end prints the report as an operand, never as a format string (a % in a name or message would be interpreted)", 3, nil)
		c.Borrow("C03", "C03.L5", "C13.Q9", "the profile name in the report header is the profile's name quoted by the escaping helper and by nothing else", 1, func(o Obligation) bool {
			return o.Construct == "profile-name-source"
		})
		c13DefaultOnlyForEmpty(c)
		c.R.Rule("C13.Q8", "placeholders are resolved with this profile's prefixes only (shared with C02.P9 / C15.O3)", 1)
		prefixResolution(c, "C13.Q8")
	}
	extras["C14"] = func(c *Ctx) {
		exactNumbers(c, "C14.K8")
		c14Verbatim(c)
		c.Borrow("C12", "C12.J1", "C14.K7", "the report builder leaves the nodes of a result as the policy produced them: it names them, it does not remove or rewrite location nodes", 3, nil)
	}
	extras["C12"] = func(c *Ctx) {
		discardedErrorFallback(c, "C12.J10")
		scalarTextGuard(c, "C12.J11")
		c12DegenerateProfiles(c, "C12.J12", "C12.J13")
		c12NamesOfEnumValues(c)
		c12ValidationFoundUnderItsName(c)
		c.Borrow("C13", "C13.Q3", "C12.J18", "the message parser only replaces each placeholder by a conversion verb and doubles percent signs: nothing is deleted from the text, so a message that is not empty as written is not empty in the report", 2, nil)
		c.Borrow("C18", "C18.W2", "C12.J17", "the report is printed as an operand, never as a format string: a % in a message would turn the JSON into something else", 3, nil)
		c.Borrow("C18", "C18.W1", "C12.J14", "a report written to a file is the whole content of that file: the command-line front end truncates what the file held (a shorter report over a longer one leaves a tail that makes the file invalid JSON)", 2, nil)
	}
	extras["C15"] = func(c *Ctx) {
		scalarTextGuard(c, "C15.O9")
		c15OrderFreeFlags(c)
		c.Borrow("C07", "C07.H6", "C15.O12", "every prefix and name the path grammar admits is accepted by the IRI expander: renaming a prefix to another admissible name does not turn a profile into an error", 2, nil)
		yamlAliasesRejected(c, "C15.O10")
		c.Borrow("C01", "C01.R4", "C15.O11", "no operand list of the generator is extended in place while another iteration still uses it (which operand survives would depend on how operands sort, that is on how prefixes and variables are spelled)", 1, func(o Obligation) bool {
			return strings.Contains(o.Construct, "#append:") || o.Construct == "shared-append-census"
		})
	}
	extras["C17"] = func(c *Ctx) {
		c.Borrow("C01", "C01.R2", "C17.Z9", "the generators of `and` / `or` hand a negated rule to each other through Negate(), which must return a rule that is not negated: otherwise the two recurse into each other until the stack overflows, which no recover() catches", 2, func(o Obligation) bool {
			return strings.Contains(o.Construct, "AndRule") || strings.Contains(o.Construct, "OrRule")
		})
		c.R.Rule("C17.Z10", "no compilation writes into the shared default prefix table (concurrent compilations would abort the process with `concurrent map writes`, which no recover catches)", 1)
		prefixResolution(c, "C17.Z10")
	}
}

// c08CompileErrors (B6): "rejected at compile time and nothing is evaluated" needs the compiler's verdict to reach the
// caller.  In every module function from which the policy compilation (rego.New(...).PrepareForEval) is reachable, each
// call on that route that returns an error is followed, on every path on which the error is non-nil, by the return of a
// non-nil error (or a panic), and no such error is discarded or overwritten untested: the same local discipline C04.E1
// demands on the data path.  A test of some other result instead (`if compiled == nil`) lets the compile error of a
// profile that calls a denied built-in fall through to the data stages.
func c08CompileErrors(c *Ctx) {
	r, p := c.R, c.P
	r.Rule("C08.B6", "the error of the compilation stage is tested and propagated by every function between the compiler and the entry points", 3)
	funcs := p.ModuleFuncs()
	reach := map[*ssa.Function]bool{}
	for _, fn := range funcs {
		for _, b := range fn.Blocks {
			for _, ins := range b.Instrs {
				if ci, ok := ins.(ssa.CallInstruction); ok {
					if n := funcFullName(ssaCalleeObj(ci)); n == "("+opaPath+"/rego.Rego).PrepareForEval" || n == "(*"+opaPath+"/rego.Rego).PrepareForEval" {
						reach[fn] = true
					}
				}
			}
		}
	}
	if len(reach) == 0 {
		r.Unknown("C08.B6", "compile-site", "", "no call of Rego.PrepareForEval found in the module")
		return
	}
	for changed := true; changed; {
		changed = false
		for _, fn := range funcs {
			if reach[fn] {
				continue
			}
			for _, cal := range p.ModuleCallees(fn) {
				if reach[cal] {
					reach[fn] = true
					changed = true
					break
				}
			}
		}
	}
	n := 0
	for _, fn := range funcs {
		if !reach[fn] || strings.HasPrefix(RelPkg(fn), "cmd") || strings.HasPrefix(RelPkg(fn), "test") || strings.HasPrefix(RelPkg(fn), "performance") {
			continue
		}
		var errCalls []ssa.CallInstruction
		for _, b := range fn.Blocks {
			for _, ins := range b.Instrs {
				ci, ok := ins.(ssa.CallInstruction)
				if !ok {
					continue
				}
				if _, isDefer := ins.(*ssa.Defer); isDefer {
					continue
				}
				if resultHasError(ci.Common().Signature()) < 0 {
					continue
				}
				name := funcFullName(ssaCalleeObj(ci))
				onRoute := strings.HasSuffix(name, "rego.Rego).PrepareForEval")
				if callee := ci.Common().StaticCallee(); callee != nil && reach[callee] {
					onRoute = true
				}
				if onRoute {
					errCalls = append(errCalls, ci)
				}
			}
		}
		if len(errCalls) == 0 {
			continue
		}
		n++
		localErrorDiscipline(c, "C08.B6", fn, errCalls)
	}
	r.Analysed["functions_on_the_compile_route"] = n
}

// c18LibraryIsSilent (W8): the commands print what the library returns and nothing else reaches the terminal, so no
// function in reach of the library's entry points may write to the process's standard output or error: fmt.Print*,
// print/println, log.*, os.Stdout / os.Stderr.  (The generated path parser has a tracing printer behind its Debug option;
// it is accepted as long as the module never turns that option on.)
func c18LibraryIsSilent(c *Ctx) {
	r, p := c.R, c.P
	r.Rule("C18.W8", "nothing in reach of the library's entry points writes to standard output or standard error", 1)
	reach := p.Reach(libraryEntries(p)...)
	var funcs []*ssa.Function
	for f := range reach {
		funcs = append(funcs, f)
	}
	sortFuncs(funcs)
	debugOn := false
	for _, fn := range p.ModuleFuncs() {
		for _, b := range fn.Blocks {
			for _, ins := range b.Instrs {
				if ci, ok := ins.(ssa.CallInstruction); ok {
					if callee := ci.Common().StaticCallee(); callee != nil && IsModuleFunc(callee) && callee.Name() == "Debug" && RelPkg(callee) == "internal/parser/path" && RelPkg(fn) != "internal/parser/path" {
						debugOn = true
					}
				}
			}
		}
	}
	n, bad := 0, 0
	for _, fn := range funcs {
		if !IsModuleFunc(fn) || strings.HasPrefix(RelPkg(fn), "cmd") {
			continue
		}
		n++
		ord := ordinal{}
		for _, b := range fn.Blocks {
			for _, ins := range b.Instrs {
				what := stdStreamWrite(ins)
				if what == "" {
					continue
				}
				if RelPkg(fn) == "internal/parser/path" && fn.Name() == "print" && !debugOn {
					continue // the generated parser's tracer: `if !p.debug { return }`, and nothing sets the option
				}
				bad++
				r.Bad("C18.W8", ord.next(FuncKey(fn)+"#"+what), p.Pos(ins.Pos()), what+" in a function the library's entry points reach: whatever it prints appears on the terminal next to (or inside) the report, the policy or the normalised input the command prints, which then is not the library's value any more")
			}
		}
	}
	canaryCheck(c, "C18.W8", []string{"fmt.Println", "os.Stderr", "log.Printf"}, stdStreamWrite)
	if bad == 0 {
		r.OK("C18.W8", "census", "", fmt.Sprintf("%d functions in reach of the library's entry points: none writes to standard output or standard error", n))
	}
}

// discardedErrorFallback: a stated belief, cross-checked.  Where a function in reach of the library's entry points
// discards the error of a module function f and goes on with f's value (`path, _ = expander.Expand(path)`), it believes
// that f hands something usable back when it fails.  Today every such f returns its own argument on its error returns
// (an IRI that cannot be expanded stays as written).  The rule requires exactly that of every f called this way: on each
// return where the error may be non-nil, the value is the parameter (directly, or through a module function that is
// handed the parameter and itself keeps the rule) — not the zero value, which would put an empty path into the trace.
// Only text-valued callees are held to this: their value ends up in the generated code and in the report.
func discardedErrorFallback(c *Ctx, rid string) {
	r, p := c.R, c.P
	r.Rule(rid, "where the error of a text-valued function is discarded and the text used, the callee returns its argument on every error return", 1)
	reach := p.Reach(libraryEntries(p)...)
	var funcs []*ssa.Function
	for f := range reach {
		if IsModuleFunc(f) && !strings.HasPrefix(RelPkg(f), "cmd") {
			funcs = append(funcs, f)
		}
	}
	sortFuncs(funcs)
	memo := map[*ssa.Function]string{}
	var fallback func(f *ssa.Function, depth int) string // "" = ok, else why not
	fallback = func(f *ssa.Function, depth int) string {
		if v, ok := memo[f]; ok {
			return v
		}
		memo[f] = "" // recursion: assume ok
		why := ""
		ei := resultHasError(f.Signature)
		if ei < 0 || f.Signature.Results().Len() != 2 || depth > 4 {
			memo[f] = "not a (value, error) function of the module"
			return memo[f]
		}
		vi := 1 - ei
		isParam := func(v ssa.Value) bool {
			seen := map[ssa.Value]bool{}
			var ok func(x ssa.Value) bool
			ok = func(x ssa.Value) bool {
				if seen[x] {
					return true
				}
				seen[x] = true
				switch y := x.(type) {
				case *ssa.Parameter:
					return true
				case *ssa.Phi:
					for _, e := range y.Edges {
						if !ok(e) {
							return false
						}
					}
					return true
				}
				return false
			}
			return ok(v)
		}
		for _, b := range f.Blocks {
			for _, ins := range b.Instrs {
				ret, isRet := ins.(*ssa.Return)
				if !isRet || len(ret.Results) != 2 {
					continue
				}
				if isNilConst(ret.Results[ei]) {
					continue
				}
				v := ret.Results[vi]
				if isParam(v) {
					continue
				}
				// return g(param...) — both results of one call of a module function that keeps the rule
				if ex, ok := v.(*ssa.Extract); ok {
					if call, ok := ex.Tuple.(*ssa.Call); ok {
						if g := call.Call.StaticCallee(); g != nil && IsModuleFunc(g) {
							if ee, ok := ret.Results[ei].(*ssa.Extract); ok && ee.Tuple == ex.Tuple {
								handsParam := false
								for _, a := range call.Call.Args {
									if isParam(a) && types.Identical(a.Type(), v.Type()) {
										handsParam = true
									}
								}
								if w := fallback(g, depth+1); w == "" && handsParam {
									continue
								} else if w != "" {
									why = w
									continue
								}
							}
						}
					}
				}
				why = fmt.Sprintf("%s returns %s together with a non-nil error at %s", FuncKey(f), describeValue(p, v), p.Pos(ret.Pos()))
			}
		}
		memo[f] = why
		return why
	}
	n := 0
	for _, fn := range funcs {
		ord := ordinal{}
		for _, b := range fn.Blocks {
			for _, ins := range b.Instrs {
				call, ok := ins.(*ssa.Call)
				if !ok {
					continue
				}
				g := call.Call.StaticCallee()
				if g == nil || !IsModuleFunc(g) || g.Signature.Results().Len() != 2 {
					continue
				}
				ei := resultHasError(g.Signature)
				if ei < 0 || !isStringType(g.Signature.Results().At(1-ei).Type()) {
					continue // (sizes, numbers and lists come back as -1 / nil sentinels that the callers' loops tolerate)
				}
				errUsed, valUsed := false, false
				for _, ref := range nonDebugRefs(call) {
					if ex, ok := ref.(*ssa.Extract); ok && len(nonDebugRefs(ex)) > 0 {
						if ex.Index == ei {
							errUsed = true
						} else {
							valUsed = true
						}
					}
					if _, ok := ref.(*ssa.Return); ok {
						errUsed = true
					}
				}
				if errUsed || !valUsed {
					continue
				}
				n++
				why := fallback(g, 0)
				r.Check(why == "", rid, ord.next(FuncKey(fn)+"#"+FuncKey(g)), p.Pos(call.Pos()), "the error is discarded; on every error return the callee hands its argument back", "the error of "+FuncKey(g)+" is discarded here and its value used, but "+why+": the caller goes on with that value (an empty path or IRI in the generated code and in the trace)")
			}
		}
	}
	if n == 0 {
		r.OK(rid, "census", "", "no call in reach of the library's entry points discards an error while using the value")
	}
}

// c13VerbatimNames (Q6): "the report shows the profile name and the validation name verbatim".  Both travel from the YAML
// wrapper's string accessor into Profile.Name / BaseStatement.Name and from there into the generated policy.  Every value
// stored into those two fields is traced back through the SSA graph, across parameters to every call site: it must be
// a constant (the component names of the atomic constraints) or the accessor's result as it is.  Any call, concatenation
// or slicing on the way (TrimSpace, ToLower, a "sanitised" copy) changes what the report shows for some name.
func c13VerbatimNames(c *Ctx) {
	r, p := c.R, c.P
	r.Rule("C13.Q6", "profile and validation names are stored as the YAML accessor returned them", 2)
	callers := map[*ssa.Function][]ssa.CallInstruction{}
	for _, fn := range p.ModuleFuncs() {
		for _, b := range fn.Blocks {
			for _, ins := range b.Instrs {
				if ci, ok := ins.(ssa.CallInstruction); ok {
					if g := ci.Common().StaticCallee(); g != nil && IsModuleFunc(g) {
						callers[g] = append(callers[g], ci)
					}
				}
			}
		}
	}
	var trace func(v ssa.Value, depth int, seen map[ssa.Value]bool) string
	// traceField: what was stored into field idx of the struct value (or of the struct a pointer / local cell holds)
	var traceField func(sv ssa.Value, idx int, depth int, seen map[ssa.Value]bool) string
	traceField = func(sv ssa.Value, idx int, depth int, seen map[ssa.Value]bool) string {
		if depth > 12 {
			return "the value's origin is more than 12 steps away"
		}
		switch x := sv.(type) {
		case *ssa.Alloc:
			found := false
			for _, ref := range nonDebugRefs(x) {
				switch y := ref.(type) {
				case *ssa.FieldAddr:
					if y.Field != idx {
						continue
					}
					for _, r2 := range nonDebugRefs(y) {
						if st, ok := r2.(*ssa.Store); ok && st.Addr == ssa.Value(y) {
							found = true
							if why := trace(st.Val, depth+1, seen); why != "" {
								return why
							}
						}
					}
				case *ssa.Store:
					if y.Addr == ssa.Value(x) {
						found = true
						if why := traceField(y.Val, idx, depth+1, seen); why != "" {
							return why
						}
					}
				}
			}
			if !found {
				return "" // the zero value: nothing was stored
			}
			return ""
		case *ssa.UnOp:
			if x.Op == token.MUL {
				return traceField(x.X, idx, depth+1, seen)
			}
		case *ssa.Parameter:
			fn := x.Parent()
			pi := -1
			for i, prm := range fn.Params {
				if prm == x {
					pi = i
				}
			}
			for _, site := range callers[fn] {
				args := site.Common().Args
				if pi >= 0 && pi < len(args) {
					if why := traceField(args[pi], idx, depth+1, seen); why != "" {
						return why
					}
				}
			}
			return ""
		case *ssa.Phi:
			for _, e := range x.Edges {
				if why := traceField(e, idx, depth+1, seen); why != "" {
					return why
				}
			}
			return ""
		case *ssa.IndexAddr, *ssa.Index:
			// an entry of a package-level table that is only read (a composite literal): the field of every entry is a constant
			var base ssa.Value
			var et types.Type
			if ia, ok := x.(*ssa.IndexAddr); ok {
				base = ia.X
				if pt, ok := ia.Type().Underlying().(*types.Pointer); ok {
					et = pt.Elem()
				}
			} else {
				base = x.(*ssa.Index).X
				et = x.(*ssa.Index).Type()
			}
			if ld, ok := base.(*ssa.UnOp); ok && ld.Op == token.MUL {
				base = ld.X
			}
			g, ok := base.(*ssa.Global)
			st, isStruct := et.Underlying().(*types.Struct)
			if ok && isStruct && idx < st.NumFields() {
				if gv, ok := g.Object().(*types.Var); ok {
					if pk := p.AnyPkg(gv.Pkg().Path()); pk != nil {
						w := &symWalker{p: p, pk: pk, info: pk.TypesInfo, env: map[types.Object]*Sym{}, stack: map[types.Object]bool{}}
						if tbl := w.globalTable(gv); tbl != nil && tbl.K == symList && len(tbl.Parts) > 0 {
							allConst := true
							for _, el := range tbl.Parts {
								fv, has := el.Fields[st.Field(idx).Name()]
								if el.K != symStruct || !has {
									allConst = false
									continue
								}
								if _, isConst := fv.ConstString(); !isConst {
									allConst = false
								}
							}
							if allConst {
								return ""
							}
						}
					}
				}
			}
		}
		return "it is a field of a value whose construction is not recognised (" + sv.String() + ")"
	}
	trace = func(v ssa.Value, depth int, seen map[ssa.Value]bool) string {
		if v == nil || seen[v] {
			return ""
		}
		seen[v] = true
		if depth > 12 {
			return "the value's origin is more than 12 steps away"
		}
		switch x := v.(type) {
		case *ssa.Const:
			return ""
		case *ssa.Parameter:
			fn := x.Parent()
			idx := -1
			for i, prm := range fn.Params {
				if prm == x {
					idx = i
				}
			}
			sites := callers[fn]
			if idx < 0 || len(sites) == 0 {
				return "" // an entry parameter: handed in by the caller as it is
			}
			for _, site := range sites {
				args := site.Common().Args
				if idx < len(args) {
					if why := trace(args[idx], depth+1, seen); why != "" {
						return why
					}
				}
			}
			return ""
		case *ssa.Phi:
			for _, e := range x.Edges {
				if why := trace(e, depth+1, seen); why != "" {
					return why
				}
			}
			return ""
		case *ssa.MakeInterface:
			return trace(x.X, depth+1, seen)
		case *ssa.ChangeType:
			return trace(x.X, depth+1, seen)
		case *ssa.Extract:
			if call, ok := x.Tuple.(*ssa.Call); ok {
				if g := call.Call.StaticCallee(); g != nil && RelPkg(g) == "internal/parser/yaml" {
					return "" // the YAML wrapper's accessor
				}
				return "it is a result of " + calleeName(call) + " (" + p.Pos(call.Pos()) + ")"
			}
		case *ssa.Call:
			if g := x.Call.StaticCallee(); g != nil && RelPkg(g) == "internal/parser/yaml" {
				return ""
			}
			return "it is the result of " + calleeName(x) + " (" + p.Pos(x.Pos()) + ")"
		case *ssa.Field:
			return traceField(x.X, x.Field, depth+1, seen)
		case *ssa.UnOp:
			if x.Op == token.MUL {
				switch a := x.X.(type) {
				case *ssa.FieldAddr:
					if fieldNameOf(a) == "Name" {
						return "" // a copy of a name stored earlier (checked where it was stored)
					}
					// a field of a parameter object (a struct of constructor arguments): what was put into that field
					if ld, ok := a.X.(*ssa.Alloc); ok {
						return traceField(ld, a.Field, depth+1, seen)
					}
					if pv, ok := a.X.(*ssa.Parameter); ok {
						return traceField(pv, a.Field, depth+1, seen)
					}
				case *ssa.Alloc:
					for _, ref := range nonDebugRefs(a) {
						if st, ok := ref.(*ssa.Store); ok && st.Addr == ssa.Value(a) {
							if why := trace(st.Val, depth+1, seen); why != "" {
								return why
							}
						}
					}
					return ""
				}
			}
		case *ssa.BinOp:
			return "it is computed (" + x.Op.String() + ") at " + p.Pos(x.Pos())
		case *ssa.Slice:
			return "it is a slice of another text (" + p.Pos(x.Pos()) + ")"
		}
		return "its origin is not recognised (" + v.String() + ")"
	}
	n := 0
	for _, fn := range p.ModuleFuncs() {
		if strings.HasPrefix(RelPkg(fn), "cmd") {
			continue
		}
		ord := ordinal{}
		for _, b := range fn.Blocks {
			for _, ins := range b.Instrs {
				st, ok := ins.(*ssa.Store)
				if !ok {
					continue
				}
				fa, ok := st.Addr.(*ssa.FieldAddr)
				if !ok || fieldNameOf(fa) != "Name" {
					continue
				}
				owner := ""
				if pt, ok := fa.X.Type().Underlying().(*types.Pointer); ok {
					owner = typeName(pt.Elem())
				}
				if owner != "Profile" && owner != "BaseStatement" {
					continue
				}
				n++
				why := trace(st.Val, 0, map[ssa.Value]bool{})
				r.Check(why == "", "C13.Q6", ord.next(FuncKey(fn)+"#"+owner+".Name"), p.Pos(st.Pos()), "the stored name is a constant or the YAML value as read", "the text stored into "+owner+".Name is not the YAML value as read: "+why+"; the report then shows another name than the profile wrote (leading or trailing blanks, case, special characters)")
			}
		}
	}
	if n == 0 {
		r.Unknown("C13.Q6", "stores", "", "no store into Profile.Name or BaseStatement.Name was found")
	}
}

// scalarTextGuard: a YAML node has a text (yaml.Node.Value) only when it is a scalar; a mapping, a sequence or a key
// with nothing after it has the empty text.  The wrapper's typed accessors all read Value under `Kind == ScalarNode`
// (and a tag test), and their callers fall back to defaults when the accessor reports an error.  The rule requires that
// guard of every read of Value in the module: the test `<node>.Kind == yaml.ScalarNode` on the same node must hold on
// every path to the read.  (`message:` left blank must yield the default message, not an empty one; a quoted and an
// unquoted spelling of a scalar must not be told apart from a collection by accident.)
// One exception, by construct: the keys of a mapping in Yaml.Map — a key that is not a scalar names nothing, its empty
// text cannot be looked up by any caller.
func scalarTextGuard(c *Ctx, rid string) {
	r, p := c.R, c.P
	r.Rule(rid, "a YAML node's text is read only under a test that the node is a scalar", 4)
	exceptions := map[string]string{
		"internal/parser/yaml.Yaml.Map#$.data.Content[*].Value": "keys of a mapping: a non-scalar key has the empty text and names nothing a caller could ask for",
	}
	isNodeField := func(fa *ssa.FieldAddr, name string) bool {
		pt, ok := fa.X.Type().Underlying().(*types.Pointer)
		if !ok {
			return false
		}
		nt := namedOf(pt.Elem())
		return nt != nil && nt.Obj().Name() == "Node" && strings.HasSuffix(objPkgPath(nt.Obj()), "yaml.v3") && fieldNameOf(fa) == name
	}
	n := 0
	for _, fn := range p.ModuleFuncs() {
		if strings.HasPrefix(RelPkg(fn), "cmd") {
			continue
		}
		ord := ordinal{}
		for _, b := range fn.Blocks {
			for _, ins := range b.Instrs {
				ld, ok := ins.(*ssa.UnOp)
				if !ok || ld.Op != token.MUL {
					continue
				}
				fa, ok := ld.X.(*ssa.FieldAddr)
				if !ok || !isNodeField(fa, "Value") {
					continue
				}
				n++
				node := describeFieldLoad(fa.X)
				key := ord.next(FuncKey(fn) + "#" + node + ".Value")
				// (the construct is named without the name of the receiver / parameter the path starts from)
				anon := node
				if i := strings.IndexAny(anon, ".["); i > 0 {
					anon = "$" + anon[i:]
				}
				if why, ok := exceptions[FuncKey(fn)+"#"+anon+".Value"]; ok {
					r.OK(rid, key, p.Pos(ld.Pos()), "listed exception: "+why)
					continue
				}
				guarded := false
				for d := b; d != nil && !guarded; d = d.Idom() {
					dom := d.Idom()
					if dom == nil || len(dom.Instrs) == 0 {
						continue
					}
					iff, ok := dom.Instrs[len(dom.Instrs)-1].(*ssa.If)
					if !ok || dom.Succs[0] != d || len(d.Preds) != 1 {
						continue
					}
					// a helper of the module that answers "is this node a scalar (with tag …)": its true result implies the test
					if call, isCall := iff.Cond.(*ssa.Call); isCall {
						if g := call.Call.StaticCallee(); g != nil && IsModuleFunc(g) {
							for gi, prm := range g.Params {
								if gi >= len(call.Call.Args) {
									break
								}
								if inner, ok := impliesScalar(g, prm, isNodeField); ok {
									if describeFieldLoad(call.Call.Args[gi])+inner == node {
										guarded = true
									}
								}
							}
						}
						continue
					}
					bo, ok := iff.Cond.(*ssa.BinOp)
					if !ok || bo.Op != token.EQL {
						continue
					}
					for _, pair := range [][2]ssa.Value{{bo.X, bo.Y}, {bo.Y, bo.X}} {
						kl, ok := pair[0].(*ssa.UnOp)
						if !ok {
							continue
						}
						kfa, ok := kl.X.(*ssa.FieldAddr)
						if !ok || !isNodeField(kfa, "Kind") || describeFieldLoad(kfa.X) != node {
							continue
						}
						if cst, ok := pair[1].(*ssa.Const); ok && cst.Value != nil && cst.Int64() == 8 { // yaml.ScalarNode
							guarded = true
						}
					}
				}
				r.Check(guarded, rid, key, p.Pos(ld.Pos()), "read under "+node+".Kind == yaml.ScalarNode", "the text of "+node+" is read without a test that the node is a scalar: a mapping, a sequence or a key with nothing after it has the empty text, which is then taken for the value (an empty message or name instead of the default, or of an error)")
			}
		}
	}
	if n == 0 {
		r.Unknown(rid, "reads", "", "no read of yaml.Node.Value found in the module")
	}
}

// c16Backtracking (X10): "any other string is rejected rather than truncated to its longest valid prefix" rests on the
// backtracking points of the PEG interpreter that is generated into peg.go next to the grammar table.  Three of them are
// decided structurally (the rest of the runtime stays trusted): a sequence that fails at its n-th element gives back the
// input its first n-1 elements consumed — every `return …, false` of the function that interprets a sequence (and of the
// literal matcher, which consumes rune by rune) comes right after a call of the parser's restore — and the two predicates
// (&e, !e, which the end-of-input anchor `!.` is built from) restore on every path.  Without the first, `a /` parses as
// `a`: the dangling operator is swallowed and the anchor then succeeds at the real end of input.
func c16Backtracking(c *Ctx) {
	r, p := c.R, c.P
	r.Rule("C16.X10", "the parser runtime gives back consumed input when a sequence, a literal or a predicate is done failing", 4)
	kinds := map[string]string{"seqExpr": "fail", "litMatcher": "fail", "andExpr": "all", "notExpr": "all"}
	found := map[string]bool{}
	pk := p.Pkg("internal/parser/path")
	if pk == nil {
		r.Unknown("C16.X10", "runtime", "", "package internal/parser/path not found")
		return
	}
	info := pk.TypesInfo
	for _, f := range pk.Syntax {
		for _, d := range f.Decls {
			fd, ok := d.(*ast.FuncDecl)
			if !ok || fd.Body == nil || fd.Recv == nil || fd.Type.Params == nil || len(fd.Type.Params.List) != 1 || fd.Type.Results == nil || len(fd.Type.Results.List) != 2 {
				continue
			}
			tv, ok := info.Types[fd.Type.Params.List[0].Type]
			if !ok {
				continue
			}
			pt, ok := tv.Type.Underlying().(*types.Pointer)
			if !ok {
				continue
			}
			kind := typeName(pt.Elem())
			mode, ok := kinds[kind]
			if !ok {
				continue
			}
			found[kind] = true
			key := relOf(pk) + "." + recvName(fd) + "." + fd.Name.Name + "#" + kind
			bad := ""
			nret := 0
			// (statements are examined list by list, so that "preceded" means: an earlier statement of the same block)
			var visit func(list []ast.Stmt)
			visit = func(list []ast.Stmt) {
				for i, st := range list {
					switch x := st.(type) {
					case *ast.ReturnStmt:
						if len(x.Results) != 2 {
							continue
						}
						if mode == "fail" {
							id, isID := ast.Unparen(x.Results[1]).(*ast.Ident)
							if !isID || id.Name != "false" {
								continue
							}
						}
						nret++
						restored := false
						for _, prev := range list[:i] {
							if es, ok := prev.(*ast.ExprStmt); ok {
								if call, ok := es.X.(*ast.CallExpr); ok {
									if fn, ok := calleeOf(info, call).(*types.Func); ok && fn.Name() == "restore" && fn.Pkg() == pk.Types {
										restored = true
									}
								}
							}
						}
						if !restored {
							bad = "the return at " + p.Pos(x.Pos()) + " is not preceded by a call of the parser's restore"
						}
					case *ast.BlockStmt:
						visit(x.List)
					case *ast.IfStmt:
						visit(x.Body.List)
						if eb, ok := x.Else.(*ast.BlockStmt); ok {
							visit(eb.List)
						} else if ei, ok := x.Else.(*ast.IfStmt); ok {
							visit([]ast.Stmt{ei})
						}
					case *ast.ForStmt:
						visit(x.Body.List)
					case *ast.RangeStmt:
						visit(x.Body.List)
					case *ast.SwitchStmt:
						for _, cl := range x.Body.List {
							visit(cl.(*ast.CaseClause).Body)
						}
					}
				}
			}
			visit(fd.Body.List)
			switch {
			case bad != "":
				r.Bad("C16.X10", key, p.Pos(fd.Pos()), bad+": input consumed before the failure stays consumed, so a string with a defective tail is accepted as its valid prefix")
			case nret == 0:
				r.Unknown("C16.X10", key, p.Pos(fd.Pos()), "no failing return found in the function that interprets "+kind)
			default:
				r.OK("C16.X10", key, p.Pos(fd.Pos()), fmt.Sprintf("%d return(s) each preceded by restore", nret))
			}
		}
	}
	for _, k := range sortedKeys(kinds) {
		if !found[k] {
			r.Unknown("C16.X10", "runtime#"+k, "", "the function of the generated parser that interprets "+k+" was not found")
		}
	}
}

// c18ArgumentCounts (W9): the commands choose where the output goes by the exact number of arguments (`== 4`: standard
// output, `== 5`: the file), after a helper has checked the count against the list the command hands it.  Both sides must
// speak about the same counts, or an invocation gets through the check, matches no output branch and ends with status 0
// having emitted nothing: (a) the helpers that compare len(os.Args) with a value they are given compare for (in)equality,
// not for "at least"; (b) every count a command lists as acceptable has an output branch of its own when the command
// branches on the count at all.
func c18ArgumentCounts(c *Ctx) {
	r, p := c.R, c.P
	r.Rule("C18.W9", "the argument counts a command accepts are exactly the counts it has an output branch for", 2)
	n := 0
	for _, fn := range p.ModuleFuncs() {
		if !strings.HasPrefix(RelPkg(fn), "cmd") {
			continue
		}
		ord := ordinal{}
		for _, b := range fn.Blocks {
			for _, ins := range b.Instrs {
				bo, ok := ins.(*ssa.BinOp)
				if !ok {
					continue
				}
				var other ssa.Value
				switch {
				case canonicalInt(bo.X) != "":
					other = bo.Y
				case canonicalInt(bo.Y) != "":
					other = bo.X
				default:
					continue
				}
				if _, isConst := other.(*ssa.Const); isConst {
					continue // a command's own branch on a fixed count
				}
				n++
				exact := bo.Op == token.EQL || bo.Op == token.NEQ
				r.Check(exact, "C18.W9", ord.next(FuncKey(fn)+"#count-check"), p.Pos(bo.Pos()), "the number of arguments is compared for equality with the expected count", "the number of arguments is compared with the expected count by "+bo.Op.String()+": invocations with more arguments than any listed count are accepted, and a command that chooses its output by the exact count then emits nothing and still exits with status 0")
			}
		}
	}
	// (b) listed counts vs output branches
	for _, fn := range p.ExportedFuncs("cmd/commands") {
		var listed []int64
		for _, b := range fn.Blocks {
			for _, ins := range b.Instrs {
				call, ok := ins.(*ssa.Call)
				if !ok {
					continue
				}
				g := call.Call.StaticCallee()
				if g == nil || RelPkg(g) != "cmd/commands/helpers" {
					continue
				}
				for _, a := range call.Call.Args {
					if _, isSlice := a.Type().Underlying().(*types.Slice); !isSlice {
						continue
					}
					for _, op := range variadicOperands(a) {
						if cst, ok := op.(*ssa.Const); ok && cst.Value != nil && cst.Value.Kind() == constant.Int {
							listed = append(listed, cst.Int64())
						}
					}
				}
			}
		}
		if len(listed) == 0 {
			continue
		}
		branches := map[int64]bool{}
		for _, b := range fn.Blocks {
			for _, ins := range b.Instrs {
				if iff, ok := ins.(*ssa.If); ok {
					if key, k, _, ok := intTest(iff.Cond); ok && key != "" {
						branches[k] = true
					}
				}
			}
		}
		if len(branches) == 0 {
			continue
		}
		n++
		var missing []string
		for _, k := range listed {
			if !branches[k] {
				missing = append(missing, fmt.Sprint(k))
			}
		}
		var extra []string
		for k := range branches {
			isListed := false
			for _, l := range listed {
				if l == k {
					isListed = true
				}
			}
			if !isListed {
				extra = append(extra, fmt.Sprint(k))
			}
		}
		r.Check(len(missing) == 0, "C18.W9", FuncKey(fn)+"#counts", p.Pos(fn.Pos()), fmt.Sprintf("accepted counts %v each have an output branch", listed), "the command accepts "+strings.Join(missing, ", ")+" argument(s) but has no output branch for that count: such an invocation emits nothing and exits with status 0")
		_ = extra
	}
	if n == 0 {
		r.Unknown("C18.W9", "count-checks", "", "no comparison of the number of arguments was found in the commands")
	}
}

// c12DegenerateProfiles (J12, J13): "a non-empty message and a non-empty trace" must also hold for the profiles at the
// edge of the language.  J12: the text handed to the message parser is known not to be empty — a non-empty constant, or
// the YAML value on a path whose condition excludes the empty text (`message: ""` gets the default like a missing
// message does).  J13: the parser builds an and / or rule only from a list that is known to have an element (an `or` of
// nothing fails for every node without a single failed component to put into the trace, and so does `not: {and: []}`):
// the constructor call is reached only under a test of the list's size against zero.
func c12DegenerateProfiles(c *Ctx, ridMsg, ridConn string) {
	r, p := c.R, c.P
	if ridMsg != "" {
		r.Rule(ridMsg, "the message text handed to the message parser is never empty", 1)
	}
	r.Rule(ridConn, "and / or rules are only built from lists that have at least one element", 2)
	pk := p.Pkg("internal/parser/profile")
	if pk == nil {
		r.Unknown(ridConn, "package", "", "internal/parser/profile not found")
		return
	}
	isEmptyTest := func(x, v *Sym) bool {
		if x == nil || x.K != symBin || x.Op != token.EQL {
			return false
		}
		for _, pair := range [][2]*Sym{{x.X, x.Y}, {x.Y, x.X}} {
			if cs, ok := pair[1].ConstString(); ok && cs == "" && pair[0].String() == v.String() {
				return true
			}
			if pair[0].K == symLen && pair[0].X != nil && pair[0].X.String() == v.String() {
				if n, ok := pair[1].ConstInt(); ok && n == 0 {
					return true
				}
			}
		}
		return false
	}
	var hasDisjunct func(x, v *Sym) bool
	hasDisjunct = func(x, v *Sym) bool {
		if isEmptyTest(x, v) {
			return true
		}
		return x != nil && x.K == symBin && x.Op == token.LOR && (hasDisjunct(x.X, v) || hasDisjunct(x.Y, v))
	}
	var impliesNonEmpty func(cond, v *Sym) bool
	impliesNonEmpty = func(cond, v *Sym) bool {
		if cond == nil {
			return false
		}
		switch cond.K {
		case symNot:
			return hasDisjunct(cond.X, v)
		case symBin:
			if cond.Op == token.LAND {
				return impliesNonEmpty(cond.X, v) || impliesNonEmpty(cond.Y, v)
			}
			if cond.Op == token.NEQ {
				return isEmptyTest(&Sym{K: symBin, Op: token.EQL, X: cond.X, Y: cond.Y}, v)
			}
		}
		return false
	}
	var nonEmpty func(v *Sym) (bool, string)
	nonEmpty = func(v *Sym) (bool, string) {
		if cs, ok := v.ConstString(); ok {
			return cs != "", "the constant empty text"
		}
		if v.K == symChoice && len(v.AltConds) == len(v.Parts) {
			for i, alt := range v.Parts {
				if ok, _ := nonEmpty(alt); ok {
					continue
				}
				if impliesNonEmpty(v.AltConds[i], alt) {
					continue
				}
				return false, "the text " + shortFormat(alt.String()) + ", used when " + shortFormat(v.Alts[i]) + ", which does not exclude the empty text"
			}
			return true, ""
		}
		// the result of a helper with several returns: each alternative under the path conditions of its return
		if v.K == symChoice && len(v.AltUnder) == len(v.Parts) {
			for i, alt := range v.Parts {
				if ok, _ := nonEmpty(alt); ok {
					continue
				}
				implied := false
				for _, pc := range v.AltUnder[i] {
					cnd := pc.Cond
					if pc.Neg {
						cnd = &Sym{K: symNot, X: pc.Cond}
					}
					if impliesNonEmpty(cnd, alt) {
						implied = true
					}
				}
				if implied {
					continue
				}
				return false, "the text " + shortFormat(alt.String()) + ", returned by a helper when " + shortFormat(v.Alts[i]) + ", which does not exclude the empty text"
			}
			return true, ""
		}
		return false, "the text " + shortFormat(v.String()) + ", which may be empty"
	}
	// the message parser: string -> Message
	var msgParser *types.Func
	for _, n := range pk.Types.Scope().Names() {
		if fn, ok := pk.Types.Scope().Lookup(n).(*types.Func); ok {
			sig := fn.Type().(*types.Signature)
			if sig.Params().Len() == 1 && sig.Results().Len() == 1 && isStringType(sig.Params().At(0).Type()) && typeName(sig.Results().At(0).Type()) == "Message" {
				msgParser = fn
			}
		}
	}
	if msgParser == nil && ridMsg != "" {
		r.Unknown(ridMsg, "message-parser", "", "the function that parses message expressions was not found")
	}
	seenMsg, seenConn := map[string]bool{}, map[string]bool{}
	// (every function is walked as a root of its own: helpers are interpreted to a bounded depth only, and a constructor
	// call deep under the top of the parser would otherwise be seen with operands that were not evaluated)
	var roots []*ast.FuncDecl
	for _, f := range pk.Syntax {
		for _, d := range f.Decls {
			if fd, ok := d.(*ast.FuncDecl); ok && fd.Body != nil {
				roots = append(roots, fd)
			}
		}
	}
	isTop := map[*ast.FuncDecl]bool{}
	for _, fd := range symRoots(pk) {
		isTop[fd] = true
	}
	for _, root := range roots {
		root := root
		proto := &symWalker{Inline: samePkgInline(pk)}
		proto.OnCall = func(w *symWalker, call *ast.CallExpr, fn types.Object, args []*Sym, result *Sym) {
			f, _ := fn.(*types.Func)
			if f == nil {
				return
			}
			if f == msgParser && len(args) == 1 {
				if ridMsg == "" || !isTop[root] {
					return // (the text is followed from the functions nobody else in the package calls: from the YAML accessor on)
				}
				key := relOf(pk) + "." + root.Name.Name + "/" + w.FuncName() + "#message-text"
				if seenMsg[key] {
					return
				}
				seenMsg[key] = true
				ok, why := nonEmpty(args[0])
				r.Check(ok, ridMsg, key, p.Pos(call.Pos()), "a non-empty constant, or the YAML text under a condition that excludes the empty text", "the message parser is handed "+why+": a validation whose message is written as \"\" reports results with an empty resultMessage")
				return
			}
			// constructors of the connectives: a module function returning a struct with a Body list, handed a list
			sig, _ := f.Type().(*types.Signature)
			if sig == nil || f.Pkg() != pk.Types || sig.Results().Len() != 1 || !hasField(sig.Results().At(0).Type(), "Body") || w.depth != 0 && w.FuncName() == f.Name() {
				return
			}
			for _, a := range args {
				if a.K != symList || len(a.Parts) != 1 || a.Parts[0].K != symRepeat {
					continue
				}
				coll := a.Parts[0].X
				if coll.K == symField && coll.Name == "Body" {
					continue // the operands of an existing rule, mapped one to one (Negate): as many as it had
				}
				// the bound of the loop that filled the list: for(i < size) -> size; a ranged collection -> itself
				var bound *Sym
				if coll.K == symCall && coll.Fn == "for" && len(coll.Parts) == 1 && coll.Parts[0].K == symBin {
					bound = coll.Parts[0].Y
				}
				key := relOf(pk) + "." + w.FuncName() + "#" + f.Name() + "-operands"
				if seenConn[key] {
					continue
				}
				seenConn[key] = true
				guarded := false
				for _, cd := range append(w.Conds(), a.Under...) {
					cd.Cond.Walk(func(q *Sym) {
						if q.K != symBin {
							return
						}
						for _, pair := range [][2]*Sym{{q.X, q.Y}, {q.Y, q.X}} {
							if _, isInt := pair[1].ConstInt(); !isInt {
								continue
							}
							if bound != nil && pair[0].String() == bound.String() {
								guarded = true
							}
							if pair[0].K == symLen && pair[0].X != nil && (pair[0].X.String() == coll.String() || pair[0].X.String() == a.String()) {
								guarded = true
							}
						}
					})
				}
				r.Check(guarded, ridConn, key, p.Pos(call.Pos()), "the list of operands is tested against zero before the rule is built", "the rule is built from "+shortFormat(a.String())+" without any test that the list has an element: an empty `or` (or a negated empty `and`) fails for every target node with an empty trace, and an `and` of nothing has no failure branch at all, so no rule is emitted for its level and the policy does not compile (`var violation is unsafe`)")
			}
		}
		p.SymWalk(pk, root, proto, nil)
	}
	if len(seenMsg) == 0 && msgParser != nil && ridMsg != "" {
		r.Unknown(ridMsg, "message-text", "", "no call of the message parser was evaluated")
	}
	if len(seenConn) == 0 {
		r.Unknown(ridConn, "connectives", "", "no construction of an and / or rule from a list was evaluated")
	}
}

// c05MessageValues (N8): the result message is part of what must not depend on the serialisation.  A {{prefix.property}}
// placeholder prints the property's value; the flattened document holds the values of a multi-valued property in the
// order the document listed them and spells "no values" either as an absent key or as an empty array, so a value that is
// printed exactly as object.get returns it differs between serialisations of one graph.  The rule looks at the line the
// message formatter emits for each variable (E-sym): what is bound must be object.get(...) passed through something that
// normalises it (a sort / set conversion or a preamble helper), not the bare call.
func c05MessageValues(c *Ctx) {
	r, p := c.R, c.P
	r.Rule("C05.N8", "the value a message placeholder prints does not depend on the order or the spelling of the property's values", 1)
	gen := p.Pkg("internal/generator")
	if gen == nil {
		r.Unknown("C05.N8", "generator", "", "package internal/generator not found")
		return
	}
	inl := samePkgInline(gen)
	inline := func(fn *types.Func) bool {
		sig, ok := fn.Type().(*types.Signature)
		return ok && inl(fn) && !returnsText(sig)
	}
	n := 0
	seenN8 := map[string]bool{}
	for _, f := range gen.Syntax {
		for _, d := range f.Decls {
			fd, ok := d.(*ast.FuncDecl)
			if !ok || fd.Body == nil {
				continue
			}
			seen := seenN8
			proto := &symWalker{Inline: inline}
			proto.OnReturn = func(w *symWalker, ret *ast.ReturnStmt, results []*Sym) {
				if w.depth != 0 {
					return
				}
				for _, res := range results {
					res.Walk(func(q *Sym) {
						if q.K != symConcat {
							return
						}
						tpl := holeText.ReplaceAllString(q.Template(), "x")
						i := strings.Index(tpl, ":= object.get(")
						if i < 0 || !strings.Contains(tpl, "\"null\")") || seen[tpl] {
							return
						}
						seen[tpl] = true
						n++
						rhs := strings.TrimSpace(tpl[i+2:])
						bare := strings.HasPrefix(rhs, "object.get(") && strings.HasSuffix(rhs, ")") && strings.Count(rhs, "(") == 1
						r.Check(!bare, "C05.N8", "template:msg_var:=object.get(focus,iri,\"null\")#message-variable-as-read", p.Pos(fd.Pos()), "the value is normalised before it is printed", "the variable a placeholder prints is bound to the bare `"+shortFormat(rhs)+"`: a multi-valued property is printed in the order the document lists its values, and no values is `null` or `[]` depending on how the document spells it, so two serialisations of one graph get different result messages")
					})
				}
			}
			p.SymWalk(gen, fd, proto, nil)
		}
	}
	if n == 0 {
		r.Unknown("C05.N8", "message-variables", "", "no line binding a message variable with object.get was found in the generator")
	}
}

var presenceTest = regexp.MustCompile(`object\.get\([^()]*(\([^()]*\)[^()]*)*,\s*null\s*\)\s*(!=|==)\s*null|null\s*(!=|==)\s*object\.get\(`)

var holeText = regexp.MustCompile(`‹[^›]*›`)

// impliesScalar: the boolean function g returns true only on paths on which `<prm><suffix>.Kind == yaml.ScalarNode` held
// (`return n.Kind == ScalarNode && n.Tag == tag` and the like).  Returns the suffix (e.g. ".data").
func impliesScalar(g *ssa.Function, prm *ssa.Parameter, isNodeField func(*ssa.FieldAddr, string) bool) (string, bool) {
	if g.Blocks == nil || g.Signature.Results().Len() != 1 {
		return "", false
	}
	if b, ok := g.Signature.Results().At(0).Type().Underlying().(*types.Basic); !ok || b.Kind() != types.Bool {
		return "", false
	}
	// the Kind test and the block entered when it holds
	var trueSucc *ssa.BasicBlock
	suffix := ""
	for _, b := range g.Blocks {
		if len(b.Instrs) == 0 {
			continue
		}
		iff, ok := b.Instrs[len(b.Instrs)-1].(*ssa.If)
		if !ok {
			continue
		}
		bo, ok := iff.Cond.(*ssa.BinOp)
		if !ok || bo.Op != token.EQL {
			continue
		}
		for _, pair := range [][2]ssa.Value{{bo.X, bo.Y}, {bo.Y, bo.X}} {
			kl, ok := pair[0].(*ssa.UnOp)
			if !ok {
				continue
			}
			kfa, ok := kl.X.(*ssa.FieldAddr)
			if !ok || !isNodeField(kfa, "Kind") {
				continue
			}
			cst, ok := pair[1].(*ssa.Const)
			if !ok || cst.Value == nil || cst.Int64() != 8 {
				continue
			}
			path := describeFieldLoad(kfa.X)
			if !strings.HasPrefix(path, prm.Name()) {
				continue
			}
			trueSucc, suffix = b.Succs[0], path[len(prm.Name()):]
		}
	}
	if trueSucc == nil || len(trueSucc.Preds) != 1 {
		return "", false
	}
	underTest := func(b *ssa.BasicBlock) bool { return trueSucc.Dominates(b) }
	for _, b := range g.Blocks {
		for _, ins := range b.Instrs {
			ret, ok := ins.(*ssa.Return)
			if !ok || len(ret.Results) != 1 {
				continue
			}
			switch v := ret.Results[0].(type) {
			case *ssa.Const:
				if v.Value != nil && v.Value.String() == "true" && !underTest(b) {
					return "", false
				}
			case *ssa.Phi:
				for i, e := range v.Edges {
					if cst, ok := e.(*ssa.Const); ok && cst.Value != nil && cst.Value.String() == "false" {
						continue
					}
					if !underTest(v.Block().Preds[i]) {
						return "", false
					}
				}
			default:
				if !underTest(b) {
					return "", false
				}
			}
		}
	}
	return suffix, true
}

var (
	indexArith   = regexp.MustCompile(`\b([A-Za-z_][A-Za-z0-9_]*)\s*:?=\s*([A-Za-z_][A-Za-z0-9_]*)\s*[-+]\s*\d+`)
	bracketArith = regexp.MustCompile(`\[\s*[A-Za-z_][A-Za-z0-9_]*\s*[-+]\s*\d+\s*\]`)
)

// c05PositionalAccess (N9): the values of a property are a set; the order in which a document lists them (and in which
// node objects that flattening merges contribute them) is a matter of serialisation.  The templates of the generator
// therefore never address a value by a position computed from another position: no `next := idx + 1 … values[next]`, no
// `values[idx - 1]`.  (Tuples the generator builds itself are read with constant positions, which is fine.)
func c05PositionalAccess(c *Ctx) {
	r, p := c.R, c.P
	r.Rule("C05.N9", "no generated code reads a property value at a position computed from another position", 1)
	gen := p.Pkg("internal/generator")
	if gen == nil {
		r.Unknown("C05.N9", "generator", "", "package internal/generator not found")
		return
	}
	r.Rule("C05.N11", "no generated code asks whether a property key is present (an empty array and an absent key denote the same graph)", 1)
	n, bad, marshal, presence := 0, 0, 0, 0
	for _, f := range gen.Syntax {
		ast.Inspect(f, func(nd ast.Node) bool {
			lit, ok := nd.(*ast.BasicLit)
			if !ok || lit.Kind != token.STRING {
				return true
			}
			text, ok := constString(gen.TypesInfo, lit)
			if !ok || len(text) < 6 {
				return true
			}
			n++
			probe := strings.NewReplacer("%s", "x", "%d", "1", "%v", "x", "%t", "true").Replace(text)
			why := ""
			if m := bracketArith.FindString(probe); m != "" {
				why = "an index is computed inside the brackets: " + m
			}
			for _, m := range indexArith.FindAllStringSubmatch(probe, -1) {
				for _, v := range []string{m[1], m[2]} {
					if strings.Contains(probe, "["+v+"]") {
						why = "a position is computed from another one (" + strings.TrimSpace(m[0]) + ") and used as an index"
					}
				}
			}
			if why != "" {
				bad++
				r.Bad("C05.N9", relOf(gen)+"."+enclosingFuncName(gen, lit.Pos())+"#positional-access", p.Pos(lit.Pos()), why+": which values are neighbours depends on the order the document (or the node objects merged by flattening) lists them in, so two serialisations of one graph get different verdicts")
			}
			// N4 for the templates (the preamble itself is parsed and judged clause by clause by N4 proper)
			if len(text) < 2000 {
				for _, fn := range []string{"json.marshal(", "yaml.marshal(", "json.marshal_with_options("} {
					if strings.Contains(probe, fn) {
						marshal++
						r.Bad("C05.N4", relOf(gen)+"."+enclosingFuncName(gen, lit.Pos())+"#template-"+strings.TrimSuffix(fn, "("), p.Pos(lit.Pos()), "a template prints a value with "+strings.TrimSuffix(fn, "(")+": numbers come out exactly as the document spelled them (2 / 2.0 / 2e0), so two serialisations of the same graph compare differently")
					}
				}
			}
			// N11: an empty array states no triple; flattening keeps `"p": []` in the node, so asking whether the key is
			// there (object.get(..., null) compared with null) tells it apart from a node without the key
			if m := presenceTest.FindString(probe); m != "" {
				presence++
				r.Bad("C05.N11", relOf(gen)+"."+enclosingFuncName(gen, lit.Pos())+"#presence-test", p.Pos(lit.Pos()), "a template tests whether a key is present ("+strings.TrimSpace(m)+"): `\"p\": []` and a node without p denote the same graph but answer differently")
			}
			return true
		})
	}
	if presence == 0 {
		r.OK("C05.N11", "census", "", fmt.Sprintf("%d string constants of the generator: none compares object.get(...) with null", n))
	}
	_ = marshal
	if bad == 0 {
		r.OK("C05.N9", "census", "", fmt.Sprintf("%d string constants of the generator (the embedded preamble included): none computes a position from another position", n))
	}
}

// allLevelRules: the preamble refers to `violation`, `warning` and `info` whenever the profile lists validations under
// that level (it emits `default <level> = []` only for an empty level), and every validation listed under a level must
// report under that level.  So the list of rules the generator works on is every rule of every level, each level's list
// taken whole: a function of the generator that turns a Profile into a []Rule returns
// [each(Violation => it), each(Warning => it), each(Info => it)] — nothing skipped, merged or de-duplicated across levels
// (a validation may well be listed under two levels).
func allLevelRules(c *Ctx, rid string) {
	r, p := c.R, c.P
	r.Rule(rid, "the generator works on every rule of every level (a validation listed under two levels is generated for both)", 1)
	gen := p.Pkg("internal/generator")
	if gen == nil {
		r.Unknown(rid, "generator", "", "package internal/generator not found")
		return
	}
	n := 0
	for _, f := range gen.Syntax {
		for _, d := range f.Decls {
			fd, ok := d.(*ast.FuncDecl)
			if !ok || fd.Body == nil || fd.Recv != nil || fd.Type.Params == nil || len(fd.Type.Params.List) != 1 || len(fd.Type.Params.List[0].Names) != 1 || fd.Type.Results == nil || len(fd.Type.Results.List) != 1 {
				continue
			}
			prm := gen.TypesInfo.Defs[fd.Type.Params.List[0].Names[0]]
			if prm == nil || typeName(prm.Type()) != "Profile" {
				continue
			}
			rt, ok := gen.TypesInfo.Types[fd.Type.Results.List[0].Type]
			if !ok {
				continue
			}
			sl, ok := rt.Type.Underlying().(*types.Slice)
			if !ok || typeName(sl.Elem()) != "Rule" {
				continue
			}
			n++
			key := relOf(gen) + "." + fd.Name.Name + "#all-levels"
			var why []string
			proto := &symWalker{Inline: samePkgInline(gen)}
			proto.OnReturn = func(w *symWalker, ret *ast.ReturnStmt, results []*Sym) {
				if w.depth != 0 || len(results) != 1 {
					return
				}
				v := results[0]
				if v.K != symList {
					why = append(why, "the value returned is "+shortFormat(v.String())+", not a list of the levels' rules")
					return
				}
				covered := map[string]int{}
				for _, part := range v.Parts {
					if part.K != symRepeat || len(part.Parts) != 1 || !isElemCopy(part.Parts[0], part.X) {
						why = append(why, "the list contains "+shortFormat(part.String())+", which is not `every rule of a level`")
						continue
					}
					if part.X.K == symField && part.X.X != nil && part.X.X.K == symVar && part.X.X.Obj == prm {
						covered[part.X.Name]++
					} else {
						why = append(why, "the list ranges over "+shortFormat(part.X.String())+", not over a level of the profile")
					}
				}
				for _, l := range c03Levels {
					if covered[strings.Title(l)] != 1 {
						why = append(why, fmt.Sprintf("the %s level contributes %d time(s)", l, covered[strings.Title(l)]))
					}
				}
			}
			p.SymWalk(gen, fd, proto, nil)
			r.Check(len(why) == 0, rid, key, p.Pos(fd.Pos()), "every rule of Violation, Warning and Info, each level once", strings.Join(why, "; ")+": a level whose validations are all skipped gets neither rules nor the `default <level> = []` line, and the policy does not compile (`var <level> is unsafe`); a validation listed under two levels reports under one only")
		}
	}
	if n == 0 {
		r.Unknown(rid, "rule-set", "", "no function of the generator from a Profile to a list of rules was found")
	}
}

// c08PrintCallsKept (B7): OPA erases print(...) calls before it checks for unsafe built-in functions unless print
// statements are enabled, so `print(http.send(...))` would be accepted with the call removed.  Every rego.New of the
// module is therefore handed rego.EnablePrintStatements(true), directly or through a module function that returns an
// option applying it.
func c08PrintCallsKept(c *Ctx) {
	r, p := c.R, c.P
	r.Rule("C08.B7", "print() calls are kept for the unsafe built-in check: every rego.New enables print statements", 1)
	enables := func(fn *ssa.Function) bool {
		found := false
		var visit func(f *ssa.Function, depth int)
		visit = func(f *ssa.Function, depth int) {
			if f == nil || depth > 3 || found {
				return
			}
			for _, b := range f.Blocks {
				for _, ins := range b.Instrs {
					if call, ok := ins.(ssa.CallInstruction); ok {
						if funcFullName(ssaCalleeObj(call)) == opaPath+"/rego.EnablePrintStatements" && len(call.Common().Args) == 1 {
							if cst, ok := call.Common().Args[0].(*ssa.Const); ok && cst.Value != nil && cst.Value.String() == "true" {
								found = true
							}
						}
					}
				}
			}
			for _, anon := range f.AnonFuncs {
				visit(anon, depth+1)
			}
		}
		visit(fn, 0)
		return found
	}
	n := 0
	for _, fn := range p.ModuleFuncs() {
		fname := p.Fset.Position(fn.Pos()).Filename
		if strings.HasSuffix(fname, "_test.go") || strings.HasSuffix(fname, "test_utils.go") {
			continue
		}
		ord := ordinal{}
		for _, b := range fn.Blocks {
			for _, ins := range b.Instrs {
				call, ok := ins.(*ssa.Call)
				if !ok || funcFullName(ssaCalleeObj(call)) != opaPath+"/rego.New" {
					continue
				}
				n++
				key := ord.next(FuncKey(fn) + "#rego.New")
				kept := false
				var ops []ssa.Value
				if len(call.Call.Args) == 1 {
					ops = variadicOperands(call.Call.Args[0])
				}
				if ops == nil {
					r.Unknown("C08.B7", key, p.Pos(call.Pos()), "the options of rego.New cannot be enumerated")
					continue
				}
				for _, op := range ops {
					oc, ok := op.(*ssa.Call)
					if !ok {
						continue
					}
					if funcFullName(ssaCalleeObj(oc)) == opaPath+"/rego.EnablePrintStatements" {
						if cst, ok := oc.Call.Args[0].(*ssa.Const); ok && cst.Value != nil && cst.Value.String() == "true" {
							kept = true
						}
					}
					if g := oc.Call.StaticCallee(); g != nil && IsModuleFunc(g) && enables(g) {
						kept = true
					}
				}
				r.Check(kept, "C08.B7", key, p.Pos(call.Pos()), "print statements are enabled, so print(...) calls stay in the module the unsafe built-in check looks at", "this rego.New does not enable print statements: OPA erases print(...) calls before the unsafe built-in check, so a profile whose Rego says print(http.send(...)) is accepted instead of being rejected at compile time")
			}
		}
	}
	if n == 0 {
		r.Unknown("C08.B7", "rego.New", "", "no call of rego.New found in the module")
	}
}

// yamlAliasesRejected: the YAML wrapper reads scalars, mappings and sequences; an alias node (*name) has no content of
// its own, so whatever it stands for would silently be missing (`violation: *w` lost every validation of the level and
// the report said conforms: true).  Following aliases is excluded by C17.Z6 (self-referential anchors make the node graph
// cyclic), so the profile has to be rejected: wherever a wrapper is created from text (a call of the function that
// unmarshals into a yaml.Node), the caller consults a function of the wrapper that searches the whole tree for
// `Kind == yaml.AliasNode` and answers a hit with the return of a non-nil error.
func yamlAliasesRejected(c *Ctx, rid string) {
	r, p := c.R, c.P
	r.Rule(rid, "a profile that contains a YAML alias is rejected with an error", 1)
	// functions that test a node's kind against AliasNode, and those that reach one within the wrapper package
	detects := map[*ssa.Function]bool{}
	var unmarshalers []*ssa.Function
	for _, fn := range p.ModuleFuncs() {
		for _, b := range fn.Blocks {
			for _, ins := range b.Instrs {
				switch x := ins.(type) {
				case *ssa.BinOp:
					if x.Op != token.EQL {
						continue
					}
					for _, pair := range [][2]ssa.Value{{x.X, x.Y}, {x.Y, x.X}} {
						cst, ok := pair[1].(*ssa.Const)
						if !ok || cst.Value == nil || cst.Value.Kind() != constant.Int || cst.Int64() != 16 { // yaml.AliasNode
							continue
						}
						if nt := namedOf(cst.Type()); nt != nil && nt.Obj().Name() == "Kind" && strings.HasSuffix(objPkgPath(nt.Obj()), "yaml.v3") {
							detects[fn] = true
						}
					}
				case ssa.CallInstruction:
					if funcFullName(ssaCalleeObj(x)) == "gopkg.in/yaml.v3.Unmarshal" {
						unmarshalers = append(unmarshalers, fn)
					}
				}
			}
		}
	}
	for changed := true; changed; {
		changed = false
		for _, fn := range p.ModuleFuncs() {
			if detects[fn] {
				continue
			}
			for _, cal := range p.ModuleCallees(fn) {
				if detects[cal] && RelPkg(cal) == RelPkg(fn) && RelPkg(fn) == "internal/parser/yaml" {
					detects[fn] = true
					changed = true
				}
			}
		}
	}
	if len(unmarshalers) == 0 {
		r.Unknown(rid, "unmarshal", "", "no call of yaml.Unmarshal found in the module")
		return
	}
	n := 0
	for _, um := range unmarshalers {
		for _, fn := range p.ModuleFuncs() {
			fname := p.Fset.Position(fn.Pos()).Filename
			if strings.HasSuffix(fname, "_test.go") || strings.HasSuffix(fname, "test_utils.go") {
				continue
			}
			calls := false
			for _, b := range fn.Blocks {
				for _, ins := range b.Instrs {
					if ci, ok := ins.(ssa.CallInstruction); ok && ci.Common().StaticCallee() == um {
						calls = true
					}
				}
			}
			if !calls && fn != um {
				continue
			}
			if fn == um && len(p.callersOf(um)) > 0 {
				continue // judged at its callers (or in itself when it rejects aliases on its own)
			}
			n++
			// a call of a detecting function whose (boolean / pointer) answer guards the return of a non-nil error
			rejected := false
			for _, b := range fn.Blocks {
				for _, ins := range b.Instrs {
					call, ok := ins.(*ssa.Call)
					if !ok {
						continue
					}
					g := call.Call.StaticCallee()
					if g == nil || !detects[g] {
						continue
					}
					for _, ref := range transitiveRefs(call, 3) {
						iff, ok := ref.(*ssa.If)
						if !ok {
							continue
						}
						for _, succ := range iff.Block().Succs {
							for _, i2 := range succ.Instrs {
								if ret, ok := i2.(*ssa.Return); ok {
									for _, res := range ret.Results {
										if isErrorType(res.Type()) && !isNilConst(res) {
											rejected = true
										}
									}
								}
							}
						}
					}
				}
			}
			if detects[fn] && fn == um {
				rejected = true
			}
			r.Check(rejected, rid, FuncKey(fn)+"#aliases", p.Pos(fn.Pos()), "the document is searched for alias nodes and a hit is answered with an error", "a YAML wrapper is created from text here, but the document is not searched for alias nodes (or a hit does not lead to an error): the accessors read an alias as a node without content, so the validations, constraints or names it stands for are silently dropped")
		}
	}
	if n == 0 {
		r.Unknown(rid, "wrapper-creation", "", "no function that creates the YAML wrapper from text was found")
	}
}

// transitiveRefs: the instructions that use v, directly or through extracts / unary and binary operations (depth-limited).
func transitiveRefs(v ssa.Value, depth int) []ssa.Instruction {
	var out []ssa.Instruction
	if depth < 0 {
		return out
	}
	for _, ref := range nonDebugRefs(v) {
		out = append(out, ref)
		switch x := ref.(type) {
		case *ssa.Extract:
			out = append(out, transitiveRefs(x, depth-1)...)
		case *ssa.UnOp:
			out = append(out, transitiveRefs(x, depth-1)...)
		case *ssa.BinOp:
			out = append(out, transitiveRefs(x, depth-1)...)
		}
	}
	return out
}

// c12NamesOfEnumValues (J15): the component a trace entry names comes from small tables in the profile package: methods
// that turn a value of an enumeration (a named integer type with constants) into a word — directly, or through the field
// of a struct that holds one.  Every such method, evaluated with the enumeration fixed to each of its constants in turn
// (E-sym case split), returns a non-empty text or panics; none falls into a gap of a table.
func c12NamesOfEnumValues(c *Ctx) {
	r, p := c.R, c.P
	r.Rule("C12.J15", "every value of an enumeration of the profile model has a non-empty name in each table that names it", 2)
	pk := p.Pkg("internal/parser/profile")
	if pk == nil {
		r.Unknown("C12.J15", "package", "", "internal/parser/profile not found")
		return
	}
	// enumerations: named integer types of the package with at least two constants
	consts := map[*types.Named][]*types.Const{}
	for _, nme := range pk.Types.Scope().Names() {
		if cst, ok := pk.Types.Scope().Lookup(nme).(*types.Const); ok {
			if nt, ok := cst.Type().(*types.Named); ok && nt.Obj().Pkg() == pk.Types {
				if b, ok := nt.Underlying().(*types.Basic); ok && b.Info()&types.IsInteger != 0 {
					consts[nt] = append(consts[nt], cst)
				}
			}
		}
	}
	n := 0
	for _, f := range pk.Syntax {
		for _, d := range f.Decls {
			fd, ok := d.(*ast.FuncDecl)
			if !ok || fd.Body == nil || fd.Recv == nil || len(fd.Recv.List) != 1 || len(fd.Recv.List[0].Names) != 1 {
				continue
			}
			if fd.Type.Params != nil && len(fd.Type.Params.List) > 0 {
				continue
			}
			if fd.Type.Results == nil || len(fd.Type.Results.List) != 1 {
				continue
			}
			if tv, ok := pk.TypesInfo.Types[fd.Type.Results.List[0].Type]; !ok || !isStringType(tv.Type) {
				continue
			}
			recv := pk.TypesInfo.Defs[fd.Recv.List[0].Names[0]]
			if recv == nil {
				continue
			}
			// the enumeration the method speaks about: the receiver itself or one of its fields
			rt := recv.Type()
			if pt, ok := rt.Underlying().(*types.Pointer); ok {
				rt = pt.Elem()
			}
			var enum *types.Named
			field := ""
			if nt, ok := rt.(*types.Named); ok && len(consts[nt]) >= 2 {
				enum = nt
			} else if st, ok := rt.Underlying().(*types.Struct); ok {
				for i := 0; i < st.NumFields(); i++ {
					if nt, ok := st.Field(i).Type().(*types.Named); ok && len(consts[nt]) >= 2 {
						enum, field = nt, st.Field(i).Name()
					}
				}
			}
			if enum == nil {
				continue
			}
			key := relOf(pk) + "." + recvName(fd) + "." + fd.Name.Name
			for _, cst := range consts[enum] {
				cst := cst
				var rets []*Sym
				paniced := false
				proto := &symWalker{Inline: samePkgInline(pk)}
				proto.AssumeFn = func(s *Sym) *Sym {
					switch {
					case field == "" && s.K == symVar && s.Obj == recv:
						return &Sym{K: symConst, C: cst.Val()}
					case field != "" && s.K == symField && s.Name == field && s.X != nil && s.X.K == symVar && s.X.Obj == recv:
						return &Sym{K: symConst, C: cst.Val()}
					}
					return nil
				}
				proto.OnReturn = func(w *symWalker, ret *ast.ReturnStmt, results []*Sym) {
					if w.depth == 0 && len(results) == 1 {
						rets = append(rets, results[0])
					}
				}
				proto.OnCall = func(w *symWalker, call *ast.CallExpr, fn types.Object, args []*Sym, result *Sym) {
					if id, ok := call.Fun.(*ast.Ident); ok && id.Name == "panic" && w.depth == 0 {
						paniced = true
					}
				}
				p.SymWalk(pk, fd, proto, nil)
				if len(rets) == 0 && !paniced {
					continue
				}
				n++
				empty := false
				for _, v := range rets {
					if cs, ok := v.ConstString(); ok && cs == "" {
						empty = true
					}
				}
				r.Check(!empty, "C12.J15", key+"#"+cst.Name(), p.Pos(fd.Pos()), "named (or rejected with a panic)", "for "+cst.Name()+" the method returns the empty text: a table has no entry for this value, so the component of a trace entry (or the word in the generated code) is empty")
			}
		}
	}
	if n == 0 {
		r.Unknown("C12.J15", "enumerations", "", "no method that names the values of an enumeration was evaluated")
	}
}

// c12ValidationFoundUnderItsName (J16): "every result names a validation defined in the profile".  The name a result
// carries is the first argument of the function that parses one validation; the node it parses is looked up in the
// validations mapping.  The two travel together, so the node must be what Get(<that very name>) returned: a lenient
// second lookup under another spelling would report results under a name the profile does not define.
func c12ValidationFoundUnderItsName(c *Ctx) {
	r, p := c.R, c.P
	r.Rule("C12.J16", "a validation is parsed under the key it was found under", 1)
	pk := p.Pkg("internal/parser/profile")
	if pk == nil {
		return
	}
	n := 0
	seen := map[string]bool{}
	var all []*ast.FuncDecl
	for _, f := range pk.Syntax {
		for _, d := range f.Decls {
			if fd, ok := d.(*ast.FuncDecl); ok && fd.Body != nil {
				all = append(all, fd)
			}
		}
	}
	for _, root := range all {
		proto := &symWalker{Inline: func(fn *types.Func) bool { return false }}
		proto.OnCall = func(w *symWalker, call *ast.CallExpr, fn types.Object, args []*Sym, result *Sym) {
			f, _ := fn.(*types.Func)
			if f == nil || f.Pkg() != pk.Types || len(args) < 2 {
				return
			}
			sig := f.Type().(*types.Signature)
			if sig.Params().Len() < 3 || !isStringType(sig.Params().At(0).Type()) || typeName(derefType(sig.Params().At(1).Type())) != "Yaml" || !isStringType(sig.Params().At(2).Type()) {
				return // the validation parser takes (name, node, level, ...)
			}
			key := relOf(pk) + "." + w.FuncName() + "#" + f.Name()
			if seen[key] {
				return
			}
			seen[key] = true
			n++
			name, node := args[0], args[1]
			ok := node.K == symCall && strings.HasSuffix(node.Fn, ".Get") && len(node.Parts) == 1 && node.Parts[0].String() == name.String()
			r.Check(ok, "C12.J16", key, p.Pos(call.Pos()), "the node parsed is Get(name) of the name handed over with it", "the validation handed to "+f.Name()+" under the name "+shortFormat(name.String())+" is "+shortFormat(node.String())+", not the node found under exactly that name: results are reported under a name the profile does not define")
		}
		p.SymWalk(pk, root, proto, nil)
	}
	if n == 0 {
		r.Unknown("C12.J16", "validation-parser", "", "no call that hands a validation's name and node on together was found")
	}
}

func derefType(t types.Type) types.Type {
	if pt, ok := t.Underlying().(*types.Pointer); ok {
		return pt.Elem()
	}
	return t
}

// c16RuntimeConstants (X11, X12): two more facts about the generated interpreter that "accepted exactly when the whole
// string is a sentence" rests on.  X11: end of input is the decoder's (RuneError, width 0) — or, while reading, (RuneError,
// 1 byte) for an invalid byte; a test of the rune alone takes a well-formed U+FFFD in the string for the end of input, and
// the anchor `!.` then accepts a string with a tail.  X12: the interpreter has no budget of its own: the only constant
// ever stored into the expression budget is "unlimited" (math.MaxUint64), so no sentence is rejected for its size.
func c16RuntimeConstants(c *Ctx, x11, x12, x13 string) {
	r, p := c.R, c.P
	if x11 != "" {
		r.Rule(x11, "the parser runtime recognises end of input by rune and width together", 2)
	}
	r.Rule(x12, "the parser runtime has no expression budget unless the caller sets one", 1)
	pk := p.Pkg("internal/parser/path")
	if pk == nil {
		r.Unknown(x11, "runtime", "", "package internal/parser/path not found")
		return
	}
	info := pk.TypesInfo
	isRuneError := func(e ast.Expr) bool {
		sel, ok := ast.Unparen(e).(*ast.SelectorExpr)
		if !ok || sel.Sel.Name != "RuneError" {
			return false
		}
		if tv, ok := info.Types[sel]; ok && tv.Value != nil {
			return tv.Value.ExactString() == "65533"
		}
		return false
	}
	n11, n12 := 0, 0
	for _, f := range pk.Syntax {
		var stack []ast.Node
		ast.Inspect(f, func(nd ast.Node) bool {
			if nd == nil {
				stack = stack[:len(stack)-1]
				return true
			}
			stack = append(stack, nd)
			switch x := nd.(type) {
			case *ast.BinaryExpr:
				if (x.Op != token.EQL && x.Op != token.NEQ) || !(isRuneError(x.X) || isRuneError(x.Y)) {
					return true
				}
				n11++
				// the whole boolean expression this comparison is part of
				top := ast.Expr(x)
				for i := len(stack) - 2; i >= 0; i-- {
					switch pe := stack[i].(type) {
					case *ast.ParenExpr:
						top = pe
						continue
					case *ast.BinaryExpr:
						if pe.Op == token.LAND || pe.Op == token.LOR {
							top = pe
							continue
						}
					}
					break
				}
				widthTested := false
				ast.Inspect(top, func(q ast.Node) bool {
					be, ok := q.(*ast.BinaryExpr)
					if !ok || (be.Op != token.EQL && be.Op != token.NEQ) {
						return true
					}
					for _, pair := range [][2]ast.Expr{{be.X, be.Y}, {be.Y, be.X}} {
						name := ""
						switch w := ast.Unparen(pair[0]).(type) {
						case *ast.SelectorExpr:
							name = w.Sel.Name
						case *ast.Ident:
							name = w.Name
						}
						if name != "w" && name != "n" && name != "width" && name != "size" {
							continue
						}
						if tv, ok := info.Types[pair[1]]; ok && tv.Value != nil && (tv.Value.ExactString() == "0" || tv.Value.ExactString() == "1") {
							widthTested = true
						}
					}
					return true
				})
				key := relOf(pk) + "." + enclosingFuncName(pk, x.Pos()) + "#rune-error-test"
				if x11 == "" {
					return true
				}
				r.Check(widthTested, x11, key, p.Pos(x.Pos()), "the rune is compared together with the width the decoder reported", "a rune is compared with utf8.RuneError without the decoder's width: U+FFFD written in the string is taken for the end of input (or for an invalid byte), so `core.name \uFFFD / anything` is accepted as `core.name`")
			case *ast.AssignStmt:
				for i, l := range x.Lhs {
					sel, ok := ast.Unparen(l).(*ast.SelectorExpr)
					if !ok || sel.Sel.Name != "maxExprCnt" || i >= len(x.Rhs) {
						continue
					}
					tv, ok := info.Types[x.Rhs[i]]
					if !ok || tv.Value == nil {
						continue // a value handed in by the caller (the MaxExpressions option)
					}
					n12++
					r.Check(tv.Value.ExactString() == "18446744073709551615", x12, relOf(pk)+"."+enclosingFuncName(pk, x.Pos())+"#budget", p.Pos(x.Pos()), "the default budget is unlimited", "the expression budget is set to the constant "+tv.Value.ExactString()+": a path that is a sentence of the grammar is rejected once it is long or deeply parenthesised enough")
				}
			case *ast.KeyValueExpr:
				if id, ok := x.Key.(*ast.Ident); ok && id.Name == "maxExprCnt" {
					if tv, ok := info.Types[x.Value]; ok && tv.Value != nil {
						n12++
						r.Check(tv.Value.ExactString() == "18446744073709551615" || tv.Value.ExactString() == "0", x12, relOf(pk)+"."+enclosingFuncName(pk, x.Pos())+"#budget-literal", p.Pos(x.Pos()), "no budget of its own", "the expression budget is initialised to the constant "+tv.Value.ExactString())
					}
				}
			}
			return true
		})
	}
	// X13: any other limit.  An explicit panic of the runtime that sits under an ordering comparison of integers (a depth,
	// a length, a count against a bound) is a budget: the only one the runtime has is the expression budget of X12
	r.Rule(x13, "the parser runtime gives up on nothing but the expression budget: no explicit panic sits under another ordering comparison of a length, depth or count", 1)
	n13 := 0
	for _, f := range pk.Syntax {
		var stack []ast.Node
		ast.Inspect(f, func(nd ast.Node) bool {
			if nd == nil {
				stack = stack[:len(stack)-1]
				return true
			}
			stack = append(stack, nd)
			call, ok := nd.(*ast.CallExpr)
			if !ok {
				return true
			}
			id, ok := call.Fun.(*ast.Ident)
			if !ok || id.Name != "panic" {
				return true
			}
			if _, isBuiltin := info.Uses[id].(*types.Builtin); !isBuiltin {
				return true
			}
			n13++
			limit := ""
			for i := len(stack) - 2; i >= 0 && limit == ""; i-- {
				var cond ast.Expr
				switch st := stack[i].(type) {
				case *ast.IfStmt:
					cond = st.Cond
				case *ast.FuncDecl, *ast.FuncLit:
					i = -1
					continue
				}
				if cond == nil {
					continue
				}
				ast.Inspect(cond, func(q ast.Node) bool {
					be, ok := q.(*ast.BinaryExpr)
					if !ok {
						return true
					}
					switch be.Op {
					case token.LSS, token.GTR, token.LEQ, token.GEQ:
					default:
						return true
					}
					if tv, ok := info.Types[be.X]; !ok || tv.Type == nil {
						return true
					} else if b, ok := tv.Type.Underlying().(*types.Basic); !ok || b.Info()&types.IsInteger == 0 {
						return true
					}
					budget := false
					for _, side := range []ast.Expr{be.X, be.Y} {
						if sel, ok := ast.Unparen(side).(*ast.SelectorExpr); ok && sel.Sel.Name == "maxExprCnt" {
							budget = true
						}
					}
					if !budget && limit == "" {
						limit = types.ExprString(be)
					}
					return true
				})
			}
			key := relOf(pk) + "." + enclosingFuncName(pk, call.Pos()) + "#panic"
			if limit != "" {
				key += ":" + limit
			}
			r.Check(limit == "", x13, key, p.Pos(call.Pos()), "not a limit (the expression budget of X12, or a malformed grammar table)", "the runtime panics when "+limit+": a limit of its own, so a path that is a sentence of the grammar is rejected once it is nested or long enough")
			return true
		})
	}
	if n13 == 0 {
		r.Unknown(x13, "panics", "", "no explicit panic found in the parser runtime")
	}
	if x11 != "" {
		c16CaseFolding(c)
	}
	if n11 == 0 && x11 != "" {
		r.Unknown(x11, "rune-error-tests", "", "no comparison with utf8.RuneError found in the parser runtime")
	}
	if n12 == 0 {
		r.Unknown(x12, "budget", "", "no constant store into the expression budget found in the parser runtime")
	}
}

// c01ExactValueText (R13): the set constraints (in, containsAll, containsSome) compare a value of the graph with the
// listed values through a conversion function of the embedded library that has one clause per kind of value (as_string).
// A clause that rounds its argument (format_int, floor, ceil, round) makes different values compare equal and equal
// values compare different: with format_int, 1.5 is "1", so `in: [1]` is satisfied by 1.5 and `in: [1.5]` by nothing.
// A clause that first establishes that the argument is integral (x == floor(x) and the like) is exact.
func c01ExactValueText(c *Ctx) {
	r := c.R
	r.Rule("C01.R13", "the conversion the set constraints compare values through does not round numbers (a value is in a list exactly when it equals a listed value)", 1)
	rp, err := loadPreamble(c.P)
	if err != nil {
		r.Unknown("C01.R13", "preamble", "", err.Error())
		return
	}
	rounding := map[string]bool{"format_int": true, "floor": true, "ceil": true, "round": true}
	conversions, bad := 0, 0
	for _, rl := range rp.Module.Rules {
		if len(rl.Head.Args) != 1 || rl.Head.Value == nil {
			continue
		}
		var guards []string
		integral := false
		for _, e := range rl.Body {
			if !e.IsCall() {
				continue
			}
			n := e.Operator().String()
			if strings.HasPrefix(n, "is_") {
				guards = append(guards, n)
			}
			if n == "eq" || n == "equal" {
				// x == floor(x): the argument is integral in this clause
				for _, o := range e.Operands() {
					if cn, _ := callName(o); cn == "floor" || cn == "ceil" || cn == "round" {
						integral = true
					}
				}
			}
		}
		if len(guards) == 0 {
			continue
		}
		sort.Strings(guards)
		conversions++
		if integral {
			continue
		}
		seenHere := map[string]bool{}
		rast.WalkTerms(rl.Head.Value, func(t *rast.Term) bool {
			if n, _ := callName(t); rounding[n] {
				k := string(rl.Head.Name) + "[" + strings.Join(guards, ",") + "]#" + n
				if !seenHere[k] {
					seenHere[k] = true
					bad++
					r.Bad("C01.R13", k, fmt.Sprintf("preamble line %d", rl.Location.Row-1), n+" rounds: every number between two integers is compared as the lower one, so a set constraint is satisfied by values that are not listed and never by a listed non-integer")
				}
			}
			return false
		})
	}
	if conversions == 0 {
		r.Unknown("C01.R13", "conversions", "", "no conversion function with one clause per kind of value was found in the embedded library")
		return
	}
	if bad == 0 {
		r.OK("C01.R13", "census", "", fmt.Sprintf("%d conversion clauses: none rounds its argument", conversions))
	}
}

// c07AssertionsTotal (H15): the translator dispatches on the dynamic type of values that functions of the profile model
// return (`switch x := or.Negate().(type) { case profile.AndRule: ...; default: panic(...) }`, or a plain x.(T)).  Where
// the alternative is a panic, every value the called function can return must have one of the handled types; otherwise
// a well-formed profile that reaches the call stops the translation.  Decided on the SSA form of the callee: the concrete
// type of each returned interface value.
func c07AssertionsTotal(c *Ctx) {
	r, p := c.R, c.P
	r.Rule("C07.H15", "a type switch or assertion of the translator that panics otherwise handles every type the called model function returns", 1)
	pk := p.Pkg("internal/generator")
	if pk == nil {
		r.Unknown("C07.H15", "package", "", "internal/generator not found")
		return
	}
	info := pk.TypesInfo
	// concrete types a module function returns as its (single) interface result
	returned := func(fn *types.Func) (ts []types.Type, complete bool) {
		sf := p.SSA.FuncValue(fn)
		if sf == nil || len(sf.Blocks) == 0 {
			return nil, false
		}
		complete = true
		seen := map[ssa.Value]bool{}
		var add func(v ssa.Value)
		add = func(v ssa.Value) {
			if seen[v] {
				return
			}
			seen[v] = true
			switch x := v.(type) {
			case *ssa.MakeInterface:
				ts = append(ts, x.X.Type())
			case *ssa.Phi:
				for _, e := range x.Edges {
					add(e)
				}
			case *ssa.Const:
				// nil interface: matches no case
				if x.Value == nil {
					ts = append(ts, types.Typ[types.UntypedNil])
				}
			default:
				if _, isIface := v.Type().Underlying().(*types.Interface); isIface {
					complete = false
				} else {
					ts = append(ts, v.Type())
				}
			}
		}
		for _, b := range sf.Blocks {
			for _, ins := range b.Instrs {
				if ret, ok := ins.(*ssa.Return); ok && len(ret.Results) >= 1 {
					add(ret.Results[0])
				}
			}
		}
		return ts, complete
	}
	n := 0
	_ = info
	reachesPanic := func(start *ssa.BasicBlock) bool {
		seen := map[*ssa.BasicBlock]bool{}
		var dfs func(b *ssa.BasicBlock, depth int) bool
		dfs = func(b *ssa.BasicBlock, depth int) bool {
			if b == nil || seen[b] || depth > 5 || len(b.Instrs) == 0 {
				return false
			}
			seen[b] = true
			switch b.Instrs[len(b.Instrs)-1].(type) {
			case *ssa.Panic:
				return true
			case *ssa.Return:
				return false
			}
			for _, sc := range b.Succs {
				if dfs(sc, depth+1) {
					return true
				}
			}
			return false
		}
		return dfs(start, 0)
	}
	for _, fn := range p.ModuleFuncs() {
		if RelPkg(fn) != "internal/generator" {
			continue
		}
		// values that are the (interface) result of a call of a module function
		for _, b := range fn.Blocks {
			for _, ins := range b.Instrs {
				call, ok := ins.(*ssa.Call)
				if !ok {
					continue
				}
				callee := call.Call.StaticCallee()
				if callee == nil || !IsModuleFunc(callee) || callee.Object() == nil {
					continue
				}
				if _, isIface := call.Type().Underlying().(*types.Interface); !isIface {
					continue
				}
				var handled []types.Type
				panics := false
				for _, ref := range nonDebugRefs(call) {
					ta, ok := ref.(*ssa.TypeAssert)
					if !ok || ta.X != ssa.Value(call) {
						continue
					}
					handled = append(handled, ta.AssertedType)
					if !ta.CommaOk {
						panics = true
						continue
					}
					for _, r2 := range nonDebugRefs(ta) {
						ex, ok := r2.(*ssa.Extract)
						if !ok || ex.Index != 1 {
							continue
						}
						for _, r3 := range nonDebugRefs(ex) {
							if iff, ok := r3.(*ssa.If); ok && iff.Cond == ssa.Value(ex) && reachesPanic(iff.Block().Succs[1]) {
								panics = true
							}
						}
					}
				}
				if len(handled) == 0 || !panics {
					continue
				}
				cf, _ := callee.Object().(*types.Func)
				if cf == nil {
					continue
				}
				key := FuncKey(fn) + "#switch-on:" + funcFullName(cf)
				rts, complete := returned(cf)
				if !complete || len(rts) == 0 {
					r.Analysed["H15_not_decided:"+key] = "the concrete types returned by " + funcFullName(cf) + " are not all visible in its body"
					continue
				}
				n++
				var missing []string
				for _, rt := range rts {
					ok := false
					for _, h := range handled {
						if types.Identical(rt, h) {
							ok = true
						} else if it, isIface := h.Underlying().(*types.Interface); isIface && types.Implements(rt, it) {
							ok = true
						}
					}
					if !ok {
						missing = append(missing, types.TypeString(rt, func(p *types.Package) string { return p.Name() }))
					}
				}
				r.Check(len(missing) == 0, "C07.H15", key, p.Pos(call.Pos()), "every type the callee returns is asserted", funcFullName(cf)+" can return "+strings.Join(missing, ", ")+", for which the type switch / assertion on its result panics: the translation of a well-formed profile that gets here stops with that panic")
			}
		}
	}
	if n == 0 {
		r.Unknown("C07.H15", "switches", "", "no type switch or assertion that panics otherwise, over the result of a model function, was found in the translator")
	}
}

// c01IndependentKeys (R14): the constraints written under one property are a conjunction: each keyword that is present
// adds its own conjunct, whatever other keywords are present (`atLeast` and `atMost` together are the only way to say
// "between").  The rule looks for the two ways in which one keyword can silence another, in the functions of the profile
// parser that read several constant keywords from one node and return a list (SSA form, so it does not matter how the
// list is put together): (a) the nodes or values read under two different keywords are merged into one variable that is
// then parsed once (a `switch` that picks "the" qualified constraint); (b) what is read under one keyword is handed to a
// parser or constructor only on one outcome of a test about another keyword (an else-if chain), error exits excepted.
func c01IndependentKeys(c *Ctx) {
	r, p := c.R, c.P
	r.Rule("C01.R14", "every constraint keyword of a property adds its conjunct independently of the other keywords: values read under different keywords are never merged, and none is parsed only on one outcome of a test about another", 1)
	judged, keysSeen := 0, 0
	for _, fn := range p.ModuleFuncs() {
		if RelPkg(fn) != "internal/parser/profile" || len(fn.Blocks) == 0 {
			continue
		}
		returnsList := false
		for i := 0; i < fn.Signature.Results().Len(); i++ {
			if _, ok := fn.Signature.Results().At(i).Type().Underlying().(*types.Slice); ok {
				returnsList = true
			}
		}
		if !returnsList {
			continue
		}
		// reads of constant keys from a parameter
		type read struct {
			key  string
			call *ssa.Call
		}
		var reads []read
		for _, b := range fn.Blocks {
			for _, ins := range b.Instrs {
				call, ok := ins.(*ssa.Call)
				if !ok || len(call.Call.Args) != 2 {
					continue
				}
				callee := call.Call.StaticCallee()
				if callee == nil || callee.Name() != "Get" || !strings.HasSuffix(RelPkg(callee), "internal/parser/yaml") {
					continue
				}
				if _, isParam := call.Call.Args[0].(*ssa.Parameter); !isParam {
					continue
				}
				if k, ok := constStringOf(unwrapIface(call.Call.Args[1])); ok {
					reads = append(reads, read{k, call})
				}
			}
		}
		distinct := map[string]bool{}
		for _, rd := range reads {
			distinct[rd.key] = true
		}
		if len(distinct) < 2 {
			continue
		}
		judged++
		keysSeen += len(distinct)
		// what derives from each read: forward closure over the SSA graph (not through the accumulated list: a value
		// of slice-of-interface type built by append is the conjunction itself)
		taint := map[ssa.Value]map[string]bool{}
		direct := map[ssa.Value]string{} // the read node itself and what its accessors return
		add := func(v ssa.Value, k string) bool {
			if taint[v] == nil {
				taint[v] = map[string]bool{}
			}
			if taint[v][k] {
				return false
			}
			taint[v][k] = true
			return true
		}
		for _, rd := range reads {
			add(rd.call, rd.key)
			direct[rd.call] = rd.key
		}
		isAccumulator := func(v ssa.Value) bool {
			sl, ok := v.Type().Underlying().(*types.Slice)
			if !ok {
				return false
			}
			_, iface := sl.Elem().Underlying().(*types.Interface)
			return iface
		}
		changed := true
		for changed {
			changed = false
			for _, b := range fn.Blocks {
				for _, ins := range b.Instrs {
					v, ok := ins.(ssa.Value)
					if !ok || isAccumulator(v) {
						continue
					}
					if _, isPhi := ins.(*ssa.Phi); isPhi {
						for _, e := range ins.(*ssa.Phi).Edges {
							for k := range taint[e] {
								if add(v, k) {
									changed = true
								}
							}
						}
						continue
					}
					for _, op := range ins.Operands(nil) {
						if *op == nil {
							continue
						}
						for k := range taint[*op] {
							if add(v, k) {
								changed = true
							}
						}
						// accessors of the node and the parts of what they return stay "direct"
						if k, ok := direct[*op]; ok {
							switch x := ins.(type) {
							case *ssa.Extract:
								if _, isErr := x.Type().Underlying().(*types.Interface); !isErr {
									direct[v] = k
								}
							case *ssa.Call:
								if callee := x.Call.StaticCallee(); callee != nil && strings.HasSuffix(RelPkg(callee), "internal/parser/yaml") && len(x.Call.Args) > 0 && x.Call.Args[0] == *op {
									direct[v] = k
								}
							}
						}
					}
				}
			}
		}
		fkey := FuncKey(fn)
		// (a) merges of direct values of different keys
		merged := map[string]bool{}
		for _, b := range fn.Blocks {
			for _, ins := range b.Instrs {
				phi, ok := ins.(*ssa.Phi)
				if !ok {
					continue
				}
				ks := map[string]bool{}
				for _, e := range phi.Edges {
					if k, ok := direct[e]; ok {
						ks[k] = true
					}
				}
				if len(ks) >= 2 {
					merged[strings.Join(sortedKeys(ks), "+")] = true
					r.Bad("C01.R14", fkey+"#merged:"+strings.Join(sortedKeys(ks), "+"), p.Pos(phi.Pos()), "what is read under the keywords "+strings.Join(sortedKeys(ks), ", ")+" is merged into one variable and parsed once: written together, all but one of them are silently dropped from the conjunction")
				}
			}
		}
		// (b) a key's value handed to a module function only on one outcome of a test about another key
		dom := func(a, b *ssa.BasicBlock) bool { return a.Dominates(b) }
		errorExit := func(b *ssa.BasicBlock) bool {
			// the block (or the single chain from it) ends in a panic or in a return whose last result is not the nil constant
			for i := 0; i < 4 && b != nil; i++ {
				if len(b.Instrs) == 0 {
					return false
				}
				switch last := b.Instrs[len(b.Instrs)-1].(type) {
				case *ssa.Panic:
					return true
				case *ssa.Return:
					if n := len(last.Results); n > 0 {
						if cst, ok := last.Results[n-1].(*ssa.Const); ok && cst.IsNil() {
							return false
						}
						if _, isIface := last.Results[n-1].Type().Underlying().(*types.Interface); isIface {
							return true
						}
					}
					return false
				case *ssa.Jump:
					b = b.Succs[0]
				default:
					return false
				}
			}
			return false
		}
		reported := map[string]bool{}
		for _, b := range fn.Blocks {
			for _, ins := range b.Instrs {
				call, ok := ins.(*ssa.Call)
				if !ok {
					continue
				}
				callee := call.Call.StaticCallee()
				if callee == nil || !IsModuleFunc(callee) || strings.HasSuffix(RelPkg(callee), "internal/parser/yaml") {
					continue
				}
				used := map[string]bool{}
				for _, a := range call.Call.Args {
					if k, ok := direct[a]; ok {
						used[k] = true
					}
				}
				if len(used) != 1 {
					continue
				}
				k2 := sortedKeys(used)[0]
				for _, d := range fn.Blocks {
					if d == b || !dom(d, b) || len(d.Instrs) == 0 {
						continue
					}
					iff, ok := d.Instrs[len(d.Instrs)-1].(*ssa.If)
					if !ok {
						continue
					}
					ks := taint[iff.Cond]
					if len(ks) == 0 || ks[k2] {
						continue
					}
					only := -1
					for i, sc := range d.Succs {
						if dom(sc, b) && len(sc.Preds) == 1 {
							only = i
						}
					}
					if only < 0 || errorExit(d.Succs[1-only]) {
						continue
					}
					other := strings.Join(sortedKeys(ks), ", ")
					key := fkey + "#" + k2 + "-depends-on:" + other
					if !reported[key] {
						reported[key] = true
						r.Bad("C01.R14", key, p.Pos(call.Pos()), "what is read under `"+k2+"` is handed to "+FuncKey(callee)+" only on one outcome of a test about "+other+": written together, the conjunct of `"+k2+"` is silently dropped (or kept) depending on the other keyword")
					}
				}
			}
		}
		if len(merged) == 0 && len(reported) == 0 {
			r.OK("C01.R14", fkey, p.Pos(fn.Pos()), fmt.Sprintf("%d keywords read from one node: none merged with another, none parsed under a test about another", len(distinct)))
		}
	}
	r.Analysed["R14_keywords_in_judged_functions"] = keysSeen
	if judged == 0 {
		r.Unknown("C01.R14", "constraint-parser", "", "no function of the profile parser reads two or more constant keywords from one node and returns a list")
	}
}

func unwrapIface(v ssa.Value) ssa.Value {
	if mi, ok := v.(*ssa.MakeInterface); ok {
		return mi.X
	}
	return v
}

// exactExpansion: a compact IRI prefix.name stands for the namespace bound to the prefix followed by the local name, and
// nothing else: the data is matched on the full IRI, so text the expander adds on its own (a separator it thinks is
// missing, a normalised case) makes a predicate miss its objects.  Decided on the values the expander returns without an
// error (E-sym): they are concatenations of the looked-up namespace and of texts computed from the argument; no constant
// text is put into the result.
func exactExpansion(c *Ctx, rid string) {
	r, p := c.R, c.P
	r.Rule(rid, "a compact IRI expands to the namespace of its prefix followed by its local name: the expander adds no text of its own", 1)
	pk := p.Pkg("internal/misc")
	if pk == nil {
		r.Unknown(rid, "package", "", "internal/misc not found")
		return
	}
	n := 0
	for _, f := range pk.Syntax {
		for _, d := range f.Decls {
			fd, ok := d.(*ast.FuncDecl)
			if !ok || fd.Body == nil || fd.Type.Results == nil || len(fd.Type.Results.List) != 2 {
				continue
			}
			type retv struct{ val, err *Sym }
			var rets []retv
			proto := &symWalker{Inline: func(*types.Func) bool { return false }}
			proto.OnReturn = func(w *symWalker, ret *ast.ReturnStmt, results []*Sym) {
				if w.depth == 0 && len(results) == 2 {
					rets = append(rets, retv{results[0], results[1]})
				}
			}
			p.SymWalk(pk, fd, proto, nil)
			for _, rv := range rets {
				if rv.err == nil || rv.err.K != symNil {
					continue
				}
				// a value built from a lookup in the prefix table
				lookup := false
				rv.val.Walk(func(s *Sym) {
					if s.K == symIndex && s.X != nil && s.X.K == symField && s.X.Name == "Context" {
						lookup = true
					}
				})
				if !lookup {
					continue
				}
				n++
				var added []string
				var out func(s *Sym)
				out = func(s *Sym) {
					if s == nil {
						return
					}
					switch s.K {
					case symConcat, symChoice:
						for _, part := range s.Parts {
							out(part)
						}
					case symConst:
						if t, ok := s.ConstString(); ok && t != "" {
							added = append(added, strconv.Quote(t))
						}
					}
				}
				out(rv.val)
				key := relOf(pk) + "." + recvName(fd) + "." + fd.Name.Name + "#expansion"
				r.Check(len(added) == 0, rid, key, p.Pos(fd.Pos()), "namespace followed by the local name: "+rv.val.String(), "the expansion contains text of the expander's own ("+strings.Join(added, ", ")+"): "+rv.val.String()+"; the IRI the profile names is no longer the IRI the data is matched on")
			}
		}
	}
	if n == 0 {
		r.Unknown(rid, "expander", "", "no function of internal/misc returns a text built from a lookup in the prefix table")
	}
}

// c02ActionsKeepOperands (P13): the grammar actions that build a sequence or an alternative from `head (op operand)*`
// keep every operand: the node's body is the head followed by one element per repetition of the tail, in order, with no
// condition on the element (dropping a "repeated" alternative loses `p | p^`, whose two sides differ only in direction).
// Decided on the values the action methods of the generated parser return (E-sym).
func c02ActionsKeepOperands(c *Ctx) {
	r, p := c.R, c.P
	r.Rule("C02.P13", "the grammar actions for `/` and `|` keep the head and every operand of the tail, unconditionally and in order", 2)
	pk := p.Pkg("internal/parser/path")
	if pk == nil {
		r.Unknown("C02.P13", "package", "", "internal/parser/path not found")
		return
	}
	n := 0
	for _, f := range pk.Syntax {
		for _, d := range f.Decls {
			fd, ok := d.(*ast.FuncDecl)
			if !ok || fd.Body == nil || fd.Recv == nil || !strings.HasPrefix(fd.Name.Name, "on") || fd.Type.Params == nil {
				continue
			}
			var head, tail types.Object
			for _, fl := range fd.Type.Params.List {
				for _, nm := range fl.Names {
					switch nm.Name {
					case "head":
						head = pk.TypesInfo.Defs[nm]
					case "tail":
						tail = pk.TypesInfo.Defs[nm]
					}
				}
			}
			if head == nil || tail == nil {
				continue
			}
			n++
			var bodies []*Sym
			proto := &symWalker{Inline: func(*types.Func) bool { return false }}
			proto.OnReturn = func(w *symWalker, ret *ast.ReturnStmt, results []*Sym) {
				if w.depth != 0 || len(results) == 0 {
					return
				}
				results[0].Walk(func(s *Sym) {
					if s.K == symStruct {
						if b, ok := s.Fields["body"]; ok {
							bodies = append(bodies, b)
						}
					}
				})
			}
			p.SymWalk(pk, fd, proto, nil)
			key := relOf(pk) + "." + recvName(fd) + "." + fd.Name.Name + "#body"
			if len(bodies) == 0 {
				r.Unknown("C02.P13", key, p.Pos(fd.Pos()), "the action takes head and tail but no returned node with a body was evaluated")
				continue
			}
			good, got := true, ""
			for _, b := range bodies {
				got = b.String()
				ok := b.K == symList && len(b.Parts) == 2 && b.Parts[0].K == symVar && b.Parts[0].Obj == head &&
					b.Parts[1].K == symRepeat && b.Parts[1].X != nil && b.Parts[1].X.K == symVar && b.Parts[1].X.Obj == tail && len(b.Parts[1].Parts) == 1 && !dynamicPart(b.Parts[1].Parts[0])
				if !ok {
					good = false
					break
				}
			}
			r.Check(good, "C02.P13", key, p.Pos(fd.Pos()), "body = "+got, "the node's body is "+got+", expected [head, one element per repetition of tail]: an operand written in the path is missing from the tree (or is kept only under a condition)")
		}
	}
	if n == 0 {
		r.Unknown("C02.P13", "actions", "", "no grammar action taking head and tail was found in the generated parser")
	}
}

// everyTypeIndexed: a node is an instance of every class listed in its @type, in whatever order they are listed.  The
// class index (class IRI -> ids) is filled by the indexer in a loop over the nodes and, within it, over the types of one
// node: every store into it inside those loops must happen for every element - not under a condition on the element, and
// not after a break / continue / return that some element may have taken (E-sym: path conditions and leaves at the store).
func everyTypeIndexed(c *Ctx, rid string) {
	r, p := c.R, c.P
	r.Rule(rid, "every class in a node's @type is entered in the class index, whatever the other classes and their order", 2)
	pk := p.Pkg("internal/validator")
	if pk == nil {
		r.Unknown(rid, "package", "", "internal/validator not found")
		return
	}
	isClassIndex := func(t types.Type) bool {
		if t == nil {
			return false
		}
		if pt, ok := t.Underlying().(*types.Pointer); ok {
			t = pt.Elem()
		}
		m, ok := t.Underlying().(*types.Map)
		if !ok {
			return false
		}
		if b, ok := m.Key().Underlying().(*types.Basic); !ok || b.Kind() != types.String {
			return false
		}
		sl, ok := m.Elem().Underlying().(*types.Slice)
		if !ok {
			return false
		}
		b, ok := sl.Elem().Underlying().(*types.Basic)
		return ok && b.Kind() == types.String
	}
	n := 0
	for _, f := range pk.Syntax {
		for _, d := range f.Decls {
			fd, ok := d.(*ast.FuncDecl)
			if !ok || fd.Body == nil {
				continue
			}
			site := 0
			proto := &symWalker{Inline: samePkgInline(pk)}
			proto.OnStore = func(w *symWalker, at ast.Node, target *Sym, key *Sym, val *Sym) {
				if key == nil || len(w.loops) == 0 {
					return
				}
				as, ok := at.(*ast.AssignStmt)
				if !ok {
					return
				}
				isIdx := false
				for _, l := range as.Lhs {
					if ix, ok := ast.Unparen(l).(*ast.IndexExpr); ok {
						if tv, ok := w.info.Types[ix.X]; ok && isClassIndex(tv.Type) {
							isIdx = true
						}
					}
				}
				if !isIdx {
					return
				}
				n++
				site++
				var why []string
				for _, l := range w.leftSoFar() {
					why = append(why, "skipped after "+l)
				}
				for _, cnd := range w.conds {
					t := cnd.String()
					if !strings.Contains(t, "[*]") {
						continue // not about an element of the loops
					}
					bare := strings.TrimLeft(t, "!(")
					if strings.Contains(t, "typeis(") || strings.Contains(t, "result1(") && strings.Contains(t, ".(") || strings.HasPrefix(bare, "result1(") && strings.HasSuffix(strings.TrimRight(t, ")"), `["@type"]`) {
						continue // the kind of value @type holds (one text or a list): a type switch or a comma-ok assertion on it
					}
					why = append(why, "only when "+t)
				}
				okey := relOf(pk) + "." + fd.Name.Name + fmt.Sprintf("#class-index-store-%d", site)
				r.Check(len(why) == 0, rid, okey, p.Pos(at.Pos()), "stored for every element of the loops around it", "the class of a node is entered in the index "+strings.Join(why, "; ")+": a node is then not found under one of its classes depending on its other classes or on their order, and validations targeting that class silently skip it")
			}
			p.SymWalk(pk, fd, proto, nil)
		}
	}
	if n == 0 {
		r.Unknown(rid, "class-index", "", "no store into a class index (map from class to ids) inside a loop was found in the indexer")
	}
}

// c08EmbeddedCodeWhole (B8): the deny-list is applied by the compiler to the module the translator assembles, so it
// protects only if the embedded Rego of the profile is in that module as the author wrote it.  The translator may
// substitute its template variables ($result, $node, ...: strings.ReplaceAll with a constant "$name") and cut the text
// into lines that are all kept; any other processing between the profile model and the generated text - a filter on
// lines, a trim, a regular expression, a helper that rewrites - can change where Rego's tokens begin and end (a line that
// looks like a comment inside a multi-line raw string is code), and with it which calls the compiler gets to see.
// Decided on the values the translator's functions return (E-sym, helpers of the package interpreted): on the way from the
// embedded-code fields of the profile model to the returned text there is nothing but those operations.
func c08EmbeddedCodeWhole(c *Ctx) {
	r, p := c.R, c.P
	r.Rule("C08.B8", "embedded Rego is pasted whole: between the profile model and the generated text only template variables are substituted and lines are split, all kept", 1)
	gen := p.Pkg("internal/generator")
	if gen == nil {
		r.Unknown("C08.B8", "package", "", "internal/generator not found")
		return
	}
	isSource := func(s *Sym) bool {
		if s == nil || s.K != symField || s.X == nil {
			return false
		}
		t := s.RecvT
		if t == nil {
			t = s.X.Type
		}
		if t == nil && s.X.Obj != nil {
			t = s.X.Obj.Type()
		}
		nt := namedOf(t)
		if nt == nil {
			return false
		}
		return (nt.Obj().Name() == "RegoRule" && s.Name == "Argument") || (nt.Obj().Name() == "Profile" && s.Name == "CustomRego")
	}
	contains := func(s *Sym) bool {
		found := false
		s.Walk(func(q *Sym) {
			if isSource(q) {
				found = true
			}
		})
		return found
	}
	n := 0
	for _, f := range gen.Syntax {
		for _, d := range f.Decls {
			fd, ok := d.(*ast.FuncDecl)
			if !ok || fd.Body == nil {
				continue
			}
			// judged: the functions that read the embedded-code fields themselves (helpers they hand the text to are interpreted)
			reads := false
			ast.Inspect(fd.Body, func(nd ast.Node) bool {
				if sel, ok := nd.(*ast.SelectorExpr); ok && (sel.Sel.Name == "Argument" || sel.Sel.Name == "CustomRego") {
					if tv, ok := gen.TypesInfo.Types[sel.X]; ok {
						if nt := namedOf(tv.Type); nt != nil && (nt.Obj().Name() == "RegoRule" || nt.Obj().Name() == "Profile") {
							reads = true
						}
					}
				}
				return true
			})
			if !reads {
				continue
			}
			var rets []*Sym
			proto := &symWalker{Inline: samePkgInline(gen)}
			proto.OnReturn = func(w *symWalker, ret *ast.ReturnStmt, results []*Sym) {
				if w.depth == 0 {
					rets = append(rets, results...)
				}
			}
			p.SymWalk(gen, fd, proto, nil)
			var bad []string
			uses := false
			var visit func(s *Sym)
			visit = func(s *Sym) {
				if s == nil || !contains(s) {
					return
				}
				if isSource(s) {
					uses = true
					return
				}
				switch s.K {
				case symStruct:
					for _, k := range s.Order {
						visit(s.Fields[k])
					}
					return
				case symList, symConcat, symChoice:
					for _, part := range s.Parts {
						visit(part)
					}
					return
				case symRepeat:
					visit(s.X)
					for _, part := range s.Parts {
						visit(part)
					}
					return
				case symElem:
					visit(s.X)
					return
				case symWhen:
					if s.Fn == "" {
						// a conditional part (if profile.CustomRego != nil): the condition is not about the lines of the text
						for _, part := range s.Parts {
							visit(part)
						}
						return
					}
					bad = append(bad, "kept only when "+s.Name)
					return
				case symCall:
					switch {
					case s.Fn == "strings.ReplaceAll" && len(s.Parts) == 3:
						if old, ok := s.Parts[1].ConstString(); ok && strings.HasPrefix(old, "$") && !contains(s.Parts[1]) && !contains(s.Parts[2]) {
							visit(s.Parts[0])
							return
						}
					case s.Fn == "strings.Split" && len(s.Parts) == 2:
						if sep, ok := s.Parts[1].ConstString(); ok && sep == "\n" {
							visit(s.Parts[0])
							return
						}
					case s.Fn == "strings.Join" && len(s.Parts) == 2:
						visit(s.Parts[0])
						return
					case s.Fn == "strings.Contains" || s.Fn == "strings.HasPrefix" || s.Fn == "strings.HasSuffix" || s.Fn == "strings.Index" || s.Fn == "strings.Count" || s.Fn == "len":
						return // a question about the text, not a text
					case s.Fn == "deref" || s.Fn == "maybe":
						for _, part := range s.Parts {
							visit(part)
						}
						return
					}
					if normFmt(s.Fn) {
						for _, part := range s.Parts {
							visit(part)
						}
						return
					}
					bad = append(bad, "passed through "+s.Fn)
					return
				}
				bad = append(bad, "reaches the text through "+s.String())
			}
			for _, v := range rets {
				visit(v)
			}
			if !uses && len(bad) == 0 {
				continue
			}
			n++
			sort.Strings(bad)
			key := relOf(gen) + "." + fd.Name.Name + "#embedded-code"
			r.Check(len(bad) == 0, "C08.B8", key, p.Pos(fd.Pos()), "template variables substituted, lines split, everything kept", "the embedded Rego of the profile is "+strings.Join(bad, "; ")+" before it is pasted: the module the compiler checks for denied built-ins is no longer the code the profile contains")
		}
	}
	if n == 0 {
		r.Unknown("C08.B8", "paste-sites", "", "no function of the translator returns text built from the embedded-code fields of the profile model")
	}
}

func normFmt(fn string) bool {
	return fn == "fmt.Sprintf" || fn == "fmt.Sprint" || fn == "fmt.Sprintln"
}

// exactNumbers: line and column numbers travel as decoded JSON values from the data to the policy and from the policy's
// result to the report.  Go's JSON decoder turns a number into a float64 unless it is told to keep the literal
// (Decoder.UseNumber) or the target is a typed field: beyond 2^53 the number in the report is then not the recorded one.
// Every JSON decoding in reach of the library's entry points into an untyped target (any, map[string]any, []any) must be
// a Decoder on which UseNumber was called; json.Unmarshal into such a target has no way to keep numbers exact.
func exactNumbers(c *Ctx, rid string) {
	r, p := c.R, c.P
	r.Rule(rid, "JSON is decoded into untyped values only by a decoder that keeps number literals (UseNumber): no number is routed through float64", 1)
	reach := p.Reach(libraryEntries(p)...)
	n := 0
	for _, fn := range sortedFuncs(reach) {
		ord := ordinal{}
		// decoders of this function on which UseNumber is called
		exact := map[ssa.Value]bool{}
		for _, b := range fn.Blocks {
			for _, ins := range b.Instrs {
				if ci, ok := ins.(ssa.CallInstruction); ok && funcFullName(ssaCalleeObj(ci)) == "(*encoding/json.Decoder).UseNumber" && len(ci.Common().Args) > 0 {
					exact[ci.Common().Args[0]] = true
				}
			}
		}
		for _, b := range fn.Blocks {
			for _, ins := range b.Instrs {
				switch kind, dec := untypedJSONTarget(ins); kind {
				case "json.Unmarshal":
					n++
					r.Bad(rid, ord.next(FuncKey(fn)+"#json.Unmarshal"), p.Pos(ins.Pos()), "json.Unmarshal into an untyped value turns every number into a float64: a line or column above 2^53 (and any large integer of the data) comes out changed")
				case "Decoder.Decode":
					n++
					r.Check(exact[dec], rid, ord.next(FuncKey(fn)+"#Decoder.Decode"), p.Pos(ins.Pos()), "the decoder keeps number literals (UseNumber)", "the decoder decodes into an untyped value without UseNumber: every number becomes a float64, so a line or column above 2^53 comes out changed")
				}
			}
		}
	}
	if n == 0 {
		r.Unknown(rid, "decoders", "", "no JSON decoding into an untyped value was found in reach of the library's entry points")
	}
	canaryCheck(c, rid, []string{"json.Unmarshal", "Decoder.Decode"}, func(ins ssa.Instruction) string {
		k, _ := untypedJSONTarget(ins)
		return k
	})
}

// c13DefaultOnlyForEmpty (Q10): "the report shows the message as written".  The profile parser substitutes a default text
// for a validation without message; that substitution may depend on nothing but the accessor's own answer - an error, or
// the empty text.  A condition computed from the text (TrimSpace(message) == "", a length after stripping, a pattern)
// replaces messages that were written.  Decided on the value handed to the constructor (E-sym): where it is a choice
// between a constant and the accessor's text, the condition of the constant is built from `err != nil` and `text == ""`
// alone.
func c13DefaultOnlyForEmpty(c *Ctx) {
	r, p := c.R, c.P
	r.Rule("C13.Q11", "the text handed to the message parser is what the YAML accessor returned (or the default): no function rewrites it on the way", 1)
	r.Rule("C13.Q10", "the default message replaces a missing or empty message only: the condition looks at the accessor's error and at the text itself, not at anything computed from the text", 1)
	pk := p.Pkg("internal/parser/profile")
	if pk == nil {
		r.Unknown("C13.Q10", "package", "", "internal/parser/profile not found")
		return
	}
	n := 0
	seen := map[string]bool{}
	// the message parser: string -> Message
	var msgParser *types.Func
	for _, nm := range pk.Types.Scope().Names() {
		if fn, ok := pk.Types.Scope().Lookup(nm).(*types.Func); ok {
			sig := fn.Type().(*types.Signature)
			if sig.Params().Len() == 1 && sig.Results().Len() == 1 && isStringType(sig.Params().At(0).Type()) && typeName(sig.Results().At(0).Type()) == "Message" {
				msgParser = fn
			}
		}
	}
	n11 := 0
	for _, fd := range symRoots(pk) {
		fd := fd
		proto := &symWalker{Inline: samePkgInline(pk)}
		proto.OnCall = func(w *symWalker, call *ast.CallExpr, fn types.Object, args []*Sym, result *Sym) {
			f, _ := fn.(*types.Func)
			if f == nil || f.Pkg() != pk.Types {
				return
			}
			if f == msgParser && len(args) == 1 && strings.Contains(args[0].String(), `Get("message")`) {
				key := relOf(pk) + "." + fd.Name.Name + "/" + w.FuncName() + "#message-as-read"
				if !seen[key] {
					seen[key] = true
					n11++
					var rewriting []string
					var scan func(s *Sym)
					scan = func(s *Sym) {
						if s == nil {
							return
						}
						switch s.K {
						case symChoice, symConcat:
							if s.K == symConcat {
								rewriting = append(rewriting, "a concatenation")
							}
							for _, part := range s.Parts {
								scan(part)
							}
						case symCall:
							if s.Fn == "result0" || s.Fn == "result1" || strings.Contains(s.Fn, "/internal/parser/yaml.Yaml).") {
								return
							}
							rewriting = append(rewriting, s.Fn)
						}
					}
					scan(args[0])
					sort.Strings(rewriting)
					r.Check(len(rewriting) == 0, "C13.Q11", key, p.Pos(call.Pos()), "the accessor's text (or the default)", "the message read from the profile passes through "+strings.Join(rewriting, ", ")+" before it is parsed: the report no longer shows the message as written (an escape sequence spelled out in the text is interpreted, blanks are trimmed, ...)")
				}
			}
			for _, a := range args {
				if a == nil || a.K != symChoice || len(a.AltConds) != len(a.Parts) {
					continue
				}
				hasText := false
				for _, alt := range a.Parts {
					if strings.Contains(alt.String(), `Get("message")`) {
						hasText = true
					}
				}
				if !hasText {
					continue
				}
				for i, alt := range a.Parts {
					if _, isConst := alt.ConstString(); !isConst {
						continue
					}
					key := relOf(pk) + "." + fd.Name.Name + "#default-message"
					if seen[key] {
						continue
					}
					seen[key] = true
					n++
					var computed []string
					a.AltConds[i].Walk(func(s *Sym) {
						if s.K != symCall {
							return
						}
						switch {
						case s.Fn == "result0", s.Fn == "result1", s.Fn == "len":
						case strings.Contains(s.Fn, "/internal/parser/yaml.Yaml)."): // the accessors that lead to the node and read it
						default:
							computed = append(computed, s.Fn)
						}
					})
					sort.Strings(computed)
					r.Check(len(computed) == 0, "C13.Q10", key, p.Pos(call.Pos()), "the default is used when "+shortFormat(a.AltConds[i].String()), "the default text replaces the message when "+shortFormat(a.AltConds[i].String())+": a condition computed from the text ("+strings.Join(computed, ", ")+") replaces messages that were written")
				}
			}
		}
		p.SymWalk(pk, fd, proto, nil)
	}
	if n11 == 0 {
		r.Unknown("C13.Q11", "message-as-read", "", "no call of the message parser with the text read from the profile was evaluated")
	}
	if n == 0 {
		r.Unknown("C13.Q10", "default-message", "", "no call that chooses between a constant text and the message read from the profile was found")
	}
}

// c08WrittenModuleSearched (B9): the compiler looks for denied built-ins only after the stages that rewrite the module,
// and a stage can drop code on the way (the with-modifiers of a print call, in the linked version).  The function that
// compiles the policy therefore searches the module as it is written as well (what the compiler cannot see is enough).  Decided in three parts: (a) E-sym: the error
// the compiling function returns is, whenever the compilation itself reported none, the result of a function of the module
// that is handed the very text that was compiled; (b) SSA: that function parses the text (ast.ParseModule) and visits both
// the expressions and the terms of the parsed module (a call is an expression when it is a statement and a term when it is
// an operand, a with-value or part of a with-target), starting from the whole parsed module; (c) it compares what it finds
// with the same deny-list the compiler is given.
func c08WrittenModuleSearched(c *Ctx) {
	r, p := c.R, c.P
	r.Rule("C08.B9", "after a successful compilation the module as written is searched for calls of the denied built-ins, and the outcome is the error that is returned", 1)
	pk := p.Pkg("internal/validator")
	if pk == nil {
		r.Unknown("C08.B9", "package", "", "internal/validator not found")
		return
	}
	n := 0
	for _, f := range pk.Syntax {
		fname := p.Fset.Position(f.Pos()).Filename
		if strings.HasSuffix(fname, "_test.go") || strings.HasSuffix(fname, "test_utils.go") {
			continue
		}
		for _, d := range f.Decls {
			fd, ok := d.(*ast.FuncDecl)
			if !ok || fd.Body == nil {
				continue
			}
			compiles := false
			ast.Inspect(fd.Body, func(nd ast.Node) bool {
				if call, ok := nd.(*ast.CallExpr); ok && funcFullName(calleeOf(pk.TypesInfo, call)) == "(*"+opaPath+"/rego.Rego).PrepareForEval" {
					compiles = true
				}
				return true
			})
			if !compiles {
				continue
			}
			n++
			key := relOf(pk) + "." + fd.Name.Name + "#written-module"
			var errs []*Sym
			proto := &symWalker{Inline: func(*types.Func) bool { return false }}
			proto.OnReturn = func(w *symWalker, ret *ast.ReturnStmt, results []*Sym) {
				if w.depth == 0 && len(results) >= 1 {
					errs = append(errs, results[len(results)-1])
				}
			}
			p.SymWalk(pk, fd, proto, nil)
			// the text that is compiled: second operand of rego.Module
			var compiled *Sym
			for _, e := range errs {
				e.Walk(func(s *Sym) {
					if s.K == symCall && s.Fn == opaPath+"/rego.Module" && len(s.Parts) == 2 {
						compiled = s.Parts[1]
					}
				})
			}
			if compiled == nil || len(errs) == 0 {
				r.Unknown("C08.B9", key, p.Pos(fd.Pos()), "the text handed to rego.Module, or the returned error, could not be evaluated")
				continue
			}
			var searcher string
			okAll := true
			why := ""
			for _, e := range errs {
				// the alternative that is returned when the compilation reported no error
				var onSuccess *Sym
				if e.K == symChoice && len(e.AltConds) == len(e.Parts) {
					for i, cnd := range e.AltConds {
						t := cnd.String()
						if strings.HasPrefix(t, "(result1(") && strings.HasSuffix(t, " == nil)") && strings.Contains(t, "PrepareForEval") && !strings.Contains(t, "&&") && !strings.Contains(t, "||") {
							onSuccess = e.Parts[i]
						}
					}
				}
				if onSuccess == nil {
					okAll, why = false, "the returned error is "+shortFormat(e.String())+": when the compilation reports no error, nothing else is consulted"
					break
				}
				if onSuccess.K != symCall || !strings.HasPrefix(onSuccess.Fn, ModulePath+"/") {
					okAll, why = false, "when the compilation reports no error the function returns "+shortFormat(onSuccess.String())+", not the outcome of a search of the written module"
					break
				}
				handed := false
				for _, a := range onSuccess.Parts {
					if a.String() == compiled.String() {
						handed = true
					}
				}
				if !handed {
					okAll, why = false, "the searching function is not handed the text that was compiled ("+shortFormat(compiled.String())+")"
					break
				}
				searcher = onSuccess.Fn
			}
			if !okAll {
				r.Bad("C08.B9", key, p.Pos(fd.Pos()), why)
				continue
			}
			// (b), (c): the searcher's body
			var sf *ssa.Function
			for _, fn := range p.ModuleFuncs() {
				if fn.Object() != nil && funcFullName(fn.Object()) == searcher {
					sf = fn
				}
			}
			if sf == nil {
				r.Unknown("C08.B9", key, p.Pos(fd.Pos()), "the body of "+searcher+" was not found")
				continue
			}
			calls := map[string]bool{}
			globals := map[string]bool{}
			seenFn := map[*ssa.Function]bool{}
			visited := map[*ssa.Function]bool{}
			var visit func(f *ssa.Function, depth int)
			visit = func(f *ssa.Function, depth int) {
				if f == nil || depth > 5 {
					return
				}
				visited[f] = true
				for _, b := range f.Blocks {
					for _, ins := range b.Instrs {
						if ci, ok := ins.(ssa.CallInstruction); ok {
							calls[funcFullName(ssaCalleeObj(ci))] = true
							if callee := ci.Common().StaticCallee(); callee != nil && IsModuleFunc(callee) && callee != f {
								visit(callee, depth+1)
							}
						}
						for _, op := range ins.Operands(nil) {
							if g, ok := (*op).(*ssa.Global); ok {
								globals[g.Name()] = true
							}
							// functions handed on as values (closures, bound methods given to a visitor)
							if g, ok := (*op).(*ssa.Function); ok && g != f && (IsModuleFunc(g) || g.Synthetic != "") && !seenFn[g] {
								seenFn[g] = true
								visit(g, depth+1)
							}
						}
					}
				}
				for _, anon := range f.AnonFuncs {
					visit(anon, depth+1)
				}
			}
			visit(sf, 0)
			// the deny-list the compiler is given: the global handed to rego.UnsafeBuiltins in the compiling function
			denyList := ""
			if cf := p.Func(relOf(pk), fd.Name.Name); cf != nil {
				for _, b := range cf.Blocks {
					for _, ins := range b.Instrs {
						if ci, ok := ins.(ssa.CallInstruction); ok && funcFullName(ssaCalleeObj(ci)) == opaPath+"/rego.UnsafeBuiltins" && len(ci.Common().Args) == 1 {
							v := ci.Common().Args[0]
							if ld, ok := v.(*ssa.UnOp); ok {
								v = ld.X
							}
							if g, ok := v.(*ssa.Global); ok {
								denyList = g.Name()
							}
						}
					}
				}
			}
			var missing []string
			if !calls[opaPath+"/ast.ParseModule"] && !calls[opaPath+"/ast.ParseModuleWithOpts"] {
				missing = append(missing, "it does not parse the text")
			}
			if !calls[opaPath+"/ast.WalkExprs"] {
				missing = append(missing, "it does not visit the expressions (a call written as a statement)")
			}
			if !calls[opaPath+"/ast.WalkTerms"] {
				missing = append(missing, "it does not visit the terms (a call written as an operand or as the value of a with-modifier)")
			}
			if denyList == "" || !globals[denyList] {
				missing = append(missing, "it does not consult the deny-list the compiler is given")
			}
			// the conditions under which a denied call is reported (second mutation survey: `!own[called]` turned into
			// `!!own[called]`): where the error is built, membership in the deny-list is required (true edge of the comma-ok
			// lookup) and membership in any other map (the names the module defines itself) is at most an exemption (false
			// edge), never a requirement.  Only recognised guards are judged; a searcher without such guards is left alone.
			reportSites := 0
			for f := range visited {
				for _, b := range f.Blocks {
					for _, ins := range b.Instrs {
						ci, ok := ins.(ssa.CallInstruction)
						if !ok {
							continue
						}
						if n := funcFullName(ssaCalleeObj(ci)); n != opaPath+"/ast.NewError" && n != "errors.New" && n != "fmt.Errorf" {
							continue
						}
						reportSites++
						denyPol, otherReq := 0, ""
						for d := b; d != nil && d.Idom() != nil; d = d.Idom() {
							id := d.Idom()
							iff, ok := id.Instrs[len(id.Instrs)-1].(*ssa.If)
							if !ok || len(id.Succs) != 2 || id.Succs[0] == id.Succs[1] || len(d.Preds) != 1 {
								continue
							}
							edge := 0
							if id.Succs[0] == d {
								edge = 1
							} else if id.Succs[1] == d {
								edge = -1
							}
							cond := iff.Cond
							if ex, ok := cond.(*ssa.Extract); ok && ex.Index == 1 {
								cond = ex.Tuple
							}
							lk, ok := cond.(*ssa.Lookup)
							if !ok {
								continue
							}
							if _, isMap := lk.X.Type().Underlying().(*types.Map); !isMap {
								continue
							}
							src := lk.X
							if ld, ok := src.(*ssa.UnOp); ok && ld.Op == token.MUL {
								src = ld.X
							}
							if g, ok := src.(*ssa.Global); ok && g.Name() == denyList {
								if denyPol == 0 {
									denyPol = edge
								}
							} else if edge > 0 {
								otherReq = p.Pos(iff.Pos())
								if otherReq == "" {
									otherReq = p.Pos(lk.Pos())
								}
							}
						}
						if denyPol < 0 {
							missing = append(missing, "the error at "+p.Pos(ci.Pos())+" is built where the called name is NOT in the deny-list")
						}
						if otherReq != "" && denyPol != 0 {
							missing = append(missing, "the error at "+p.Pos(ci.Pos())+" is built only where another map holds the called name (the names the module defines itself are an exemption, not a requirement): a call of a denied built-in that the module does not redefine passes")
						}
					}
				}
			}
			r.Analysed["B9_report_sites"] = reportSites
			// the search starts from the whole module: some visitor is handed the value ast.ParseModule returned
			whole := false
			for g := range visited {
				for _, b := range g.Blocks {
					for _, ins := range b.Instrs {
						ci, ok := ins.(ssa.CallInstruction)
						if !ok || len(ci.Common().Args) < 1 {
							continue
						}
						n := funcFullName(ssaCalleeObj(ci))
						if n != opaPath+"/ast.WalkExprs" && n != opaPath+"/ast.WalkTerms" && n != opaPath+"/ast.WalkNodes" {
							continue
						}
						if parsedModule(ci.Common().Args[0], 0) {
							whole = true
						}
					}
				}
			}
			// the with-modifiers of every expression are looked at: in some visitor the field With of the visited expression
			// is read on every path through the visitor (not only for expressions that pass a test, e.g. "is a print call")
			everyExpr := false
			for g := range visited {
				for _, b := range g.Blocks {
					for _, ins := range b.Instrs {
						fa, ok := ins.(*ssa.FieldAddr)
						if !ok {
							continue
						}
						pt, ok := fa.X.Type().Underlying().(*types.Pointer)
						if !ok {
							continue
						}
						st, ok := pt.Elem().Underlying().(*types.Struct)
						if !ok || fa.Field >= st.NumFields() || st.Field(fa.Field).Name() != "With" || typeName(pt.Elem()) != "Expr" {
							continue
						}
						if onEveryPath(g, b) {
							everyExpr = true
						}
					}
				}
			}
			if !everyExpr {
				missing = append(missing, "the with-modifiers are only looked at for some expressions (under a test on the expression): a with-target with a call on any other expression passes")
			}
			if !whole {
				missing = append(missing, "no visitor is handed the whole parsed module (a visit of the first bodies of the rules misses else branches and comprehensions in heads)")
			}
			r.Check(len(missing) == 0, "C08.B9", key, p.Pos(fd.Pos()), "on success the error is "+searcher+"(the compiled text), which parses it and visits expressions and terms against "+denyList, searcher+" is consulted after the compilation, but "+strings.Join(missing, "; "))
		}
	}
	if n == 0 {
		r.Unknown("C08.B9", "compile-site", "", "no function that prepares a policy for evaluation was found")
	}
}

// parsedModule: the value is what ast.ParseModule returned (possibly through an interface conversion, a local or a
// free variable of a closure).
func parsedModule(v ssa.Value, depth int) bool {
	if depth > 6 {
		return false
	}
	switch x := v.(type) {
	case *ssa.MakeInterface:
		return parsedModule(x.X, depth+1)
	case *ssa.ChangeInterface:
		return parsedModule(x.X, depth+1)
	case *ssa.Extract:
		if call, ok := x.Tuple.(*ssa.Call); ok && x.Index == 0 {
			n := funcFullName(ssaCalleeObj(call))
			return n == opaPath+"/ast.ParseModule" || n == opaPath+"/ast.ParseModuleWithOpts"
		}
	case *ssa.Phi:
		for _, e := range x.Edges {
			if parsedModule(e, depth+1) {
				return true
			}
		}
	case *ssa.UnOp:
		if x.Op == token.MUL {
			// a local or captured cell: what is stored into it
			switch cell := x.X.(type) {
			case *ssa.Alloc:
				for _, ref := range nonDebugRefs(cell) {
					if st, ok := ref.(*ssa.Store); ok && st.Addr == ssa.Value(cell) && parsedModule(st.Val, depth+1) {
						return true
					}
				}
			case *ssa.FreeVar:
				if fn := cell.Parent(); fn != nil && fn.Parent() != nil {
					for i, fv := range fn.FreeVars {
						if fv != cell {
							continue
						}
						for _, b := range fn.Parent().Blocks {
							for _, ins := range b.Instrs {
								if mc, ok := ins.(*ssa.MakeClosure); ok && mc.Fn == ssa.Value(fn) && i < len(mc.Bindings) {
									if al, ok := mc.Bindings[i].(*ssa.Alloc); ok {
										for _, ref := range nonDebugRefs(al) {
											if st, ok := ref.(*ssa.Store); ok && st.Addr == ssa.Value(al) && parsedModule(st.Val, depth+1) {
												return true
											}
										}
									}
								}
							}
						}
					}
				}
			}
		}
	}
	return false
}

// onEveryPath: every path from the function's entry to a return passes through block b.
func onEveryPath(fn *ssa.Function, b *ssa.BasicBlock) bool {
	if len(fn.Blocks) == 0 {
		return false
	}
	seen := map[*ssa.BasicBlock]bool{}
	var dfs func(x *ssa.BasicBlock) bool // a return is reachable from x without passing through b
	dfs = func(x *ssa.BasicBlock) bool {
		if x == b || seen[x] {
			return false
		}
		seen[x] = true
		if len(x.Instrs) > 0 {
			if _, isRet := x.Instrs[len(x.Instrs)-1].(*ssa.Return); isRet {
				return true
			}
		}
		for _, sc := range x.Succs {
			if dfs(sc) {
				return true
			}
		}
		return false
	}
	return !dfs(fn.Blocks[0])
}

// c16CaseFolding (X14): the literals of the grammar are matched as they are written; the generated runtime folds the
// case of the input only for literals marked ignoreCase (the grammar marks none).  Every call that changes the case of
// a rune or text in the runtime must sit on the true side of a test of an ignoreCase field.
func c16CaseFolding(c *Ctx) {
	r, p := c.R, c.P
	r.Rule("C16.X14", "the parser runtime folds the case of the input only for literals and classes marked ignoreCase", 1)
	n := 0
	for _, fn := range p.ModuleFuncs() {
		if !isGeneratedParserFunc(p, fn) {
			continue
		}
		ord := ordinal{}
		for _, b := range fn.Blocks {
			for _, ins := range b.Instrs {
				ci, ok := ins.(ssa.CallInstruction)
				if !ok {
					continue
				}
				name := funcFullName(ssaCalleeObj(ci))
				switch name {
				case "unicode.ToLower", "unicode.ToUpper", "unicode.ToTitle", "strings.ToLower", "strings.ToUpper", "strings.EqualFold", "unicode.SimpleFold":
				default:
					continue
				}
				n++
				guarded := false
				for _, d := range fn.Blocks {
					if d == b || !d.Dominates(b) || len(d.Instrs) == 0 {
						continue
					}
					iff, ok := d.Instrs[len(d.Instrs)-1].(*ssa.If)
					if !ok || !d.Succs[0].Dominates(b) || len(d.Succs[0].Preds) != 1 {
						continue
					}
					isFlagLoad := func(v ssa.Value) bool {
						ld, ok := v.(*ssa.UnOp)
						if !ok || ld.Op != token.MUL {
							return false
						}
						fa, ok := ld.X.(*ssa.FieldAddr)
						return ok && fieldNameOf(fa) == "ignoreCase"
					}
					if isFlagLoad(iff.Cond) {
						guarded = true
					}
					// a helper that is handed the flag: every call site passes the ignoreCase field
					if prm, ok := iff.Cond.(*ssa.Parameter); ok {
						idx := -1
						for i, q := range fn.Params {
							if q == prm {
								idx = i
							}
						}
						sites, all := 0, true
						for _, caller := range p.callersOf(fn) {
							for _, cb := range caller.Blocks {
								for _, ci := range cb.Instrs {
									call, ok := ci.(ssa.CallInstruction)
									if !ok || call.Common().StaticCallee() != fn || idx < 0 || idx >= len(call.Common().Args) {
										continue
									}
									sites++
									if !isFlagLoad(call.Common().Args[idx]) {
										all = false
									}
								}
							}
						}
						if sites > 0 && all {
							guarded = true
						}
					}
				}
				r.Check(guarded, "C16.X14", ord.next(FuncKey(fn)+"#"+name), p.Pos(ins.Pos()), "only for an expression marked ignoreCase", name+" is applied to the input whatever the expression says: `@Type` is then accepted where the grammar has the literal `@type`, a string that is no sentence of the grammar")
			}
		}
	}
	if n == 0 {
		r.OK("C16.X14", "census", "", "the parser runtime never changes the case of the input")
	}
}

// c15OrderFreeFlags (O13): the translator walks the operands of a formula in sorted order and accumulates facts about
// them in boolean flags declared before the loop and read after it ("one of the operands defines its own message").
// Such a flag must not depend on the order of the operands: inside the loop it is only ever set to a constant, or
// combined with its own previous value (`f = f || x`).  `f = x` makes the last operand decide, and operands that sort
// equal keep the order in which the profile lists them.
func c15OrderFreeFlags(c *Ctx) {
	r, p := c.R, c.P
	r.Rule("C15.O13", "a boolean flag accumulated over the operands of a formula is set to a constant or combined with its previous value, never overwritten with what the current operand says", 1)
	n := 0
	for _, rel := range []string{"internal/generator", "internal/parser/profile"} {
		pk := p.Pkg(rel)
		if pk == nil {
			continue
		}
		info := pk.TypesInfo
		for _, f := range pk.Syntax {
			for _, d := range f.Decls {
				fd, ok := d.(*ast.FuncDecl)
				if !ok || fd.Body == nil {
					continue
				}
				ast.Inspect(fd.Body, func(nd ast.Node) bool {
					var body *ast.BlockStmt
					var loopPos, loopEnd token.Pos
					switch l := nd.(type) {
					case *ast.RangeStmt:
						body, loopPos, loopEnd = l.Body, l.Pos(), l.End()
					case *ast.ForStmt:
						body, loopPos, loopEnd = l.Body, l.Pos(), l.End()
					default:
						return true
					}
					ast.Inspect(body, func(q ast.Node) bool {
						as, ok := q.(*ast.AssignStmt)
						if !ok || as.Tok != token.ASSIGN || len(as.Lhs) != len(as.Rhs) {
							return true
						}
						for i, lhs := range as.Lhs {
							id, ok := lhs.(*ast.Ident)
							if !ok {
								continue
							}
							v, ok := info.Uses[id].(*types.Var)
							if !ok || v.Pos() >= loopPos && v.Pos() < loopEnd {
								continue // declared inside the loop
							}
							if b, ok := v.Type().Underlying().(*types.Basic); !ok || b.Kind() != types.Bool {
								continue
							}
							// read after the loop?
							readAfter := false
							ast.Inspect(fd.Body, func(u ast.Node) bool {
								if uid, ok := u.(*ast.Ident); ok && uid.Pos() >= loopEnd && info.Uses[uid] == types.Object(v) {
									readAfter = true
								}
								return true
							})
							if !readAfter {
								continue
							}
							n++
							rhs := ast.Unparen(as.Rhs[i])
							okForm := false
							if tv, ok := info.Types[rhs]; ok && tv.Value != nil {
								okForm = true // a constant
							}
							if be, ok := rhs.(*ast.BinaryExpr); ok && (be.Op == token.LOR || be.Op == token.LAND) {
								for _, side := range []ast.Expr{be.X, be.Y} {
									if sid, ok := ast.Unparen(side).(*ast.Ident); ok && info.Uses[sid] == types.Object(v) {
										okForm = true
									}
								}
							}
							key := relOf(pk) + "." + fd.Name.Name + "#flag:" + v.Name()
							r.Check(okForm, "C15.O13", key, p.Pos(as.Pos()), "set to a constant or combined with its previous value", "the flag "+v.Name()+" is overwritten with "+types.ExprString(rhs)+" on every round of the loop, so after the loop it says what the LAST element said: the outcome depends on the order of the operands (and operands that sort equal keep the order the profile lists them in)")
						}
						return true
					})
					return true
				})
			}
		}
	}
	if n == 0 {
		r.OK("C15.O13", "census", "", "no boolean flag is set inside a loop and read after it in the translator or the profile parser")
	}
}

// c14Verbatim (K9, K10): the numbers and the uri of a location travel from the data to the report as they are.
// K9: no json.Number is converted (Float64 / Int64) in reach of the library: beyond 2^53 the float is another number.
// K10: nothing in reach of the library re-serialises a text through net/url: a file name with a blank, a non-ASCII
// letter or an upper-case scheme comes back spelled differently.
func c14Verbatim(c *Ctx) {
	r, p := c.R, c.P
	r.Rule("C14.K9", "no number of the data or of the policy's result is converted from its literal (json.Number.Float64 / Int64)", 1)
	r.Rule("C14.K10", "no text of the data is re-serialised through net/url", 1)
	reach := p.Reach(libraryEntries(p)...)
	funcs := sortedFuncs(reach)
	n9, n10 := 0, 0
	for _, fn := range funcs {
		if !IsModuleFunc(fn) {
			continue
		}
		ord := ordinal{}
		for _, b := range fn.Blocks {
			for _, ins := range b.Instrs {
				switch verbatimBreaker(ins) {
				case "number":
					n9++
					r.Bad("C14.K9", ord.next(FuncKey(fn)+"#json.Number-conversion"), p.Pos(ins.Pos()), "a json.Number is converted to a machine number: a line or column above 2^53 (or any large integer of the data) comes out changed")
				case "url":
					n10++
					r.Bad("C14.K10", ord.next(FuncKey(fn)+"#net/url"), p.Pos(ins.Pos()), "a text is parsed or printed by net/url: a location with blanks, non-ASCII letters or an upper-case scheme is reported under another spelling than the document's")
				}
			}
		}
	}
	if n9 == 0 {
		r.OK("C14.K9", "census", "", fmt.Sprintf("%d functions in reach of the library: none converts a json.Number", len(funcs)))
	}
	if n10 == 0 {
		r.OK("C14.K10", "census", "", fmt.Sprintf("%d functions in reach of the library: none uses net/url", len(funcs)))
	}
	canaryCheck(c, "C14.K9", []string{"number"}, verbatimBreaker)
	canaryCheck(c, "C14.K10", []string{"url"}, verbatimBreaker)
}

// verbatimBreaker classifies an instruction for C14.K9 / K10: "number", "url" or "".
func verbatimBreaker(ins ssa.Instruction) string {
	ci, ok := ins.(ssa.CallInstruction)
	if !ok {
		return ""
	}
	name := funcFullName(ssaCalleeObj(ci))
	switch {
	case name == "(encoding/json.Number).Float64" || name == "(encoding/json.Number).Int64":
		return "number"
	case strings.HasPrefix(name, "net/url.") || strings.HasPrefix(name, "(*net/url.URL)."):
		return "url"
	}
	return ""
}

// c02ReferencedNodesIndexed (P15): a/b follows a from the start node and b from every node reached; a node reached is
// looked up in the node index (find), so a node that the data only refers to - {"@id": W} as a value, W never described,
// which flattening does not list - must be in the index as well, or the path loses it.  Decided on the stores into the
// node index (E-sym, the same view C12.J9 judges): beside the described nodes (an element of the node list under its own
// @id) there is a store of a bare node {"@id": id} under id, with id read from a value of a node.
func c02ReferencedNodesIndexed(c *Ctx) {
	r, p := c.R, c.P
	r.Rule("C02.P15", "nodes that the data only refers to are entered in the node index (a path that passes through one keeps it)", 1)
	pk := p.Pkg("internal/validator")
	if pk == nil {
		r.Unknown("C02.P15", "package", "", "internal/validator not found")
		return
	}
	found := false
	for _, f := range pk.Syntax {
		for _, d := range f.Decls {
			fd, ok := d.(*ast.FuncDecl)
			if !ok || fd.Body == nil {
				continue
			}
			has := false
			ast.Inspect(fd.Body, func(n ast.Node) bool {
				if kv, ok := n.(*ast.KeyValueExpr); ok {
					if s, ok := constString(pk.TypesInfo, kv.Key); ok && s == "@ids" {
						has = true
					}
				}
				return true
			})
			if !has {
				continue
			}
			found = true
			var ids *Sym
			type st struct {
				target, k, v *Sym
				inLoop       bool
				conds        []symCond
			}
			var stores []st
			proto := &symWalker{Inline: samePkgInline(pk)}
			proto.OnStore = func(w *symWalker, at ast.Node, target *Sym, k *Sym, v *Sym) {
				if ks, ok := k.ConstString(); ok && ks == "@ids" {
					ids = v
					return
				}
				stores = append(stores, st{target, k, v, len(w.Loops()) > 0, w.Conds()})
			}
			p.SymWalk(pk, fd, proto, nil)
			key := relOf(pk) + "." + fd.Name.Name + "#referenced-nodes"
			bare := false
			why := "no store of a bare node {\"@id\": id} under an id read from a value of a node was found"
			for _, s := range stores {
				if s.target != ids || s.v == nil || s.k == nil || s.v.K != symStruct || len(s.v.Fields) != 1 {
					continue
				}
				idv, ok := s.v.Fields["@id"]
				if !ok || idv.String() != s.k.String() || !s.inLoop {
					continue
				}
				bare = true
				// the id is what the referring value holds under "@id" ...
				fromID := false
				s.k.Walk(func(x *Sym) {
					if x.K == symIndex && x.Y != nil {
						if ys, ok := x.Y.ConstString(); ok && ys == "@id" {
							fromID = true
						}
					}
				})
				r.Check(fromID, "C02.P15", key+"#id-source", p.Pos(fd.Pos()), "the id of the bare node is read from the \"@id\" entry of the referring value", "the key under which the bare node is entered ("+s.k.String()+") is not read from an \"@id\" entry: a reference {\"@id\": W} does not make W a node of the index")
				// ... and the store is not confined to values that are NOT objects (a comma-ok type test negated)
				confined := ""
				for _, lit := range condLiterals(s.conds) {
					if lit.neg && lit.atom.K == symCall && lit.atom.Fn == "result1" && len(lit.atom.Parts) == 1 && strings.Contains(s.k.String(), lit.atom.Parts[0].String()) {
						sub := lit.atom.Parts[0]
						if sub.K == symIndex && sub.X != nil && sub.X.K == symStruct && len(sub.X.Fields) == 0 {
							continue // "not yet in the index" (a lookup in the map under construction), not a type test
						}
						if sub.K == symIndex {
							if ys, ok := sub.Y.ConstString(); ok && ys == "@id" {
								continue // a test of the "@id" entry, judged above
							}
						}
						confined = sub.String()
					}
				}
				r.Check(confined == "", "C02.P15", key+"#reached", p.Pos(fd.Pos()), "the store is reached for values that are objects", "the bare node is entered only where the referring value "+confined+" FAILED its type test (a negated comma-ok): for a reference {\"@id\": W} the store is never reached")
			}
			r.Check(bare, "C02.P15", key, p.Pos(fd.Pos()), "a bare node is entered for every id a value refers to", why+": a path that passes through a node the data does not describe loses that node (find looks it up in the index)")
		}
	}
	if !found {
		r.Unknown("C02.P15", "indexer", "", "the function that builds the @ids index was not found")
	}
}

// c01OwnPathInConstraints (R16): every atomic constraint that the constraint parser builds for a property is about THAT
// property: the Path of each atomic statement built while ParseConstraint is evaluated (constructors interpreted, E-sym) is
// ParseConstraint's own path parameter - never the other path of a property comparison (swapped, `a >= b` is checked as
// `b >= a`), never a path invented on the way.  Found by the second mutation survey (swapped arguments survive the suite).
func c01OwnPathInConstraints(c *Ctx) {
	r, p := c.R, c.P
	r.Rule("C01.R16", "every atomic constraint built for a property has that property's path as its Path (the other path of a comparison is its argument)", 1)
	fd, pk := p.FuncDecl("internal/parser/profile", "ParseConstraint")
	if fd == nil || fd.Type.Params == nil {
		r.Unknown("C01.R16", "constraint-parser", "", "ParseConstraint not found")
		return
	}
	// the path parameter: the first parameter whose type is the property-path interface
	idx, n := -1, 0
	for _, f := range fd.Type.Params.List {
		for _, nm := range f.Names {
			if o := pk.TypesInfo.Defs[nm]; o != nil && idx < 0 && typeName(o.Type()) == "PropertyPath" {
				idx = n
			}
			n++
		}
	}
	if idx < 0 {
		r.Unknown("C01.R16", "path-parameter", p.Pos(fd.Pos()), "ParseConstraint has no parameter of the property-path type")
		return
	}
	// (only the statements built by ParseConstraint itself and by the constructors it calls directly: a nested expression
	// parsed on the way has constraints of its own, under their own paths)
	var prm types.Object
	k := 0
	for _, f := range fd.Type.Params.List {
		for _, nm := range f.Names {
			if k == idx {
				prm = pk.TypesInfo.Defs[nm]
			}
			k++
		}
	}
	built, ok := 0, true
	proto := &symWalker{Inline: samePkgInline(pk)}
	proto.OnStruct = func(w *symWalker, lit *ast.CompositeLit, val *Sym) {
		if w.depth > 3 || val.Type == nil || typeName(val.Type) != "AtomicStatement" {
			return
		}
		v, has := val.Fields["Path"]
		if !has {
			return
		}
		built++
		if v == nil || v.K != symVar || v.Obj != prm {
			ok = false
		}
	}
	p.SymWalk(pk, fd, proto, nil)
	ok = ok && built > 0
	r.Analysed["R16_atomic_statements_built"] = built
	r.Check(ok, "C01.R16", "internal/parser/profile.ParseConstraint#own-path", p.Pos(fd.Pos()), "every atomic statement built for the property carries the property's own path", "an atomic statement built while the constraints of a property are parsed does not carry that property's path as its Path (arguments of a constructor swapped?): the constraint is evaluated on another path than the one it is written under")
}

// c18CommandsDispatched (W13): `acv <command> ...` runs the command: every exported command function of cmd/commands
// that takes no parameters (Validate, Generate, Normalize, Compile, Help, ...) is called from the main package.  A case
// of the dispatch that does nothing exits 0 without printing anything.  Found by the second mutation survey.
func c18CommandsDispatched(c *Ctx) {
	r, p := c.R, c.P
	r.Rule("C18.W13", "every command function is called by the dispatch in main", 3)
	n := 0
	for _, fn := range p.ModuleFuncs() {
		if RelPkg(fn) != "cmd/commands" || fn.Object() == nil || !fn.Object().Exported() || fn.Signature.Recv() != nil || fn.Signature.Params().Len() != 0 || fn.Parent() != nil {
			continue
		}
		n++
		// called, or handed to the dispatch as a value (a table from command words to functions)
		called := false
		for _, g := range p.SSA.ImportedPackage(ModulePath + "/cmd").Members {
			mf, ok := g.(*ssa.Function)
			if !ok {
				continue
			}
			fns := append([]*ssa.Function{mf}, mf.AnonFuncs...)
			for _, h := range fns {
				for _, b := range h.Blocks {
					for _, ins := range b.Instrs {
						for _, op := range ins.Operands(nil) {
							if *op == ssa.Value(fn) {
								called = true
							}
						}
					}
				}
			}
		}
		r.Check(called, "C18.W13", FuncKey(fn)+"#dispatched", p.Pos(fn.Pos()), "called from main", "the command function is never called from the main package: `acv` with this command does nothing and exits 0 without printing the library's result")
	}
	if n == 0 {
		r.Unknown("C18.W13", "commands", "", "no exported parameterless function found in cmd/commands")
	}
}

// condLiteral: an atom of a path condition with its polarity.
type condLiteral struct {
	atom *Sym
	neg  bool
}

// condLiterals: the literals that certainly hold given the path conditions: a condition that holds is split on &&, one
// that does not hold on || (de Morgan); negations are folded into the polarity.
func condLiterals(cs []symCond) []condLiteral {
	var out []condLiteral
	var split func(s *Sym, neg bool, depth int)
	split = func(s *Sym, neg bool, depth int) {
		for s != nil && s.K == symNot {
			s, neg = s.X, !neg
		}
		if s == nil || depth > 12 {
			return
		}
		if s.K == symBin && ((s.Op == token.LAND && !neg) || (s.Op == token.LOR && neg)) {
			split(s.X, neg, depth+1)
			split(s.Y, neg, depth+1)
			return
		}
		out = append(out, condLiteral{s, neg})
	}
	for _, c := range cs {
		split(c.Cond, c.Neg, 0)
	}
	return out
}
