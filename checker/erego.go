package main

import (
	"fmt"
	"go/constant"
	"go/types"
	"sort"
	"strings"

	rast "github.com/open-policy-agent/opa/ast"
)

// E-rego: the Rego text embedded in the generator as constants, parsed with OPA's own parser (used as a library: the
// text is parsed, never compiled against data and never evaluated).

type regoPreamble struct {
	Text   string
	Module *rast.Module
	Name   string // name of the Go constant
}

// loadPreamble finds the large string constant of the generator package that defines the report rules and parses it.
func loadPreamble(p *Prog) (*regoPreamble, error) {
	pk := p.Pkg("internal/generator")
	if pk == nil {
		return nil, fmt.Errorf("package internal/generator not found")
	}
	best, bestName := "", ""
	scope := pk.Types.Scope()
	for _, n := range scope.Names() {
		c, ok := scope.Lookup(n).(*types.Const)
		if !ok || c.Val().Kind() != constant.String {
			continue
		}
		s := constant.StringVal(c.Val())
		if len(s) > len(best) {
			best, bestName = s, n
		}
	}
	if len(best) < 500 {
		return nil, fmt.Errorf("no large Rego constant found in internal/generator")
	}
	mod, err := rast.ParseModule("preamble.rego", "package preamble\n"+best)
	if err != nil {
		return nil, fmt.Errorf("the embedded Rego preamble (%s) does not parse: %v", bestName, err)
	}
	return &regoPreamble{Text: best, Module: mod, Name: bestName}, nil
}

// rulesNamed returns the rules (all clauses, else-branches excluded) with the given head name.
func (rp *regoPreamble) rulesNamed(name string) []*rast.Rule {
	var out []*rast.Rule
	for _, r := range rp.Module.Rules {
		if string(r.Head.Name) == name {
			out = append(out, r)
		}
	}
	return out
}

func (rp *regoPreamble) ruleNames() []string {
	seen := map[string]bool{}
	for _, r := range rp.Module.Rules {
		seen[string(r.Head.Name)] = true
	}
	return sortedKeys(seen)
}

// termString renders a term compactly.
func termString(t *rast.Term) string {
	if t == nil {
		return "<nil>"
	}
	return t.String()
}

// objectKeys returns the string keys of an object term, in source order.
func objectKeys(t *rast.Term) []string {
	obj, ok := t.Value.(rast.Object)
	if !ok {
		return nil
	}
	var keys []string
	obj.Foreach(func(k, v *rast.Term) {
		if s, ok := k.Value.(rast.String); ok {
			keys = append(keys, string(s))
		}
	})
	return keys
}

func objectGet(t *rast.Term, key string) *rast.Term {
	obj, ok := t.Value.(rast.Object)
	if !ok {
		return nil
	}
	return obj.Get(rast.StringTerm(key))
}

// bodyAssignments returns, for a rule body, the map var -> assigned term for expressions of the form `v := t`,
// `v = t` (var on the left) in order of appearance.
type regoAssign struct {
	Var  string
	Term *rast.Term
	Expr *rast.Expr
}

func bodyAssignments(body rast.Body) []regoAssign {
	var out []regoAssign
	for _, e := range body {
		if !e.IsCall() {
			continue
		}
		ops := e.Operands()
		op := e.Operator().String()
		if (op == "assign" || op == "eq") && len(ops) == 2 {
			if v, ok := ops[0].Value.(rast.Var); ok {
				out = append(out, regoAssign{string(v), ops[1], e})
			} else if v, ok := ops[1].Value.(rast.Var); ok && op == "eq" {
				out = append(out, regoAssign{string(v), ops[0], e})
			}
		}
	}
	return out
}

// refHeadName returns the leading variable/rule name of a ref or var term ("violation" for `violation`, "input" for input["@ids"]).
func refHeadName(t *rast.Term) string {
	switch v := t.Value.(type) {
	case rast.Var:
		return string(v)
	case rast.Ref:
		if len(v) > 0 {
			if hv, ok := v[0].Value.(rast.Var); ok {
				return string(hv)
			}
		}
	}
	return ""
}

// refPath renders a ref as head + string keys: input["@lexical"][id] -> ["input", "@lexical", "$id"].
func refPath(t *rast.Term) []string {
	ref, ok := t.Value.(rast.Ref)
	if !ok {
		if v, ok := t.Value.(rast.Var); ok {
			return []string{string(v)}
		}
		return nil
	}
	var out []string
	for i, part := range ref {
		switch v := part.Value.(type) {
		case rast.Var:
			if i == 0 {
				out = append(out, string(v))
			} else {
				out = append(out, "$"+string(v))
			}
		case rast.String:
			out = append(out, string(v))
		case rast.Number:
			out = append(out, v.String())
		default:
			out = append(out, part.String())
		}
	}
	return out
}

// callName returns the operator of a call term/expression ("to_number", "regex.find_n").
func callName(t *rast.Term) (string, []*rast.Term) {
	c, ok := t.Value.(rast.Call)
	if !ok || len(c) == 0 {
		return "", nil
	}
	return c[0].String(), c[1:]
}

// walkTerms visits every term in a rule (head and bodies, including else branches and comprehensions).
func walkRuleTerms(r *rast.Rule, f func(*rast.Term)) {
	rast.WalkTerms(r, func(t *rast.Term) bool {
		f(t)
		return false
	})
}

func sortedStrings(s []string) []string {
	out := append([]string(nil), s...)
	sort.Strings(out)
	return out
}

func joinSorted(s []string) string { return strings.Join(sortedStrings(s), ",") }
