package main

import (
	"flag"
	"fmt"
	"go/ast"
	"go/format"
	"go/token"
	"go/types"
	"os"
	"sort"
	"strings"
)

// cmdR2I is a self-test aid like s2c and rnl: in a SCRATCH copy of the repository it rewrites every
// `for _, x := range xs` over a slice (xs a plain identifier or selector, x not assigned in the body) into the index
// form `for i := range xs { x := xs[i]; ... }`.  Behaviour is unchanged.  usage: acvlint r2i -repo <scratch dir>
func cmdR2I(args []string) int {
	fs := flag.NewFlagSet("r2i", flag.ExitOnError)
	repo := fs.String("repo", "", "scratch working tree (files are rewritten in place)")
	fs.Parse(args)
	if *repo == "" || *repo == "/repo" {
		fmt.Fprintln(os.Stderr, "r2i rewrites files: give it a scratch worktree, never /repo")
		return 2
	}
	p, err := Load(*repo, "", "")
	if err != nil {
		fmt.Fprintln(os.Stderr, err)
		return 2
	}
	total := 0
	for _, pk := range p.modPkgsSorted() {
		info := pk.TypesInfo
		for _, file := range pk.Syntax {
			name := p.Fset.Position(file.Pos()).Filename
			if strings.HasSuffix(name, "_test.go") || strings.HasSuffix(name, "peg.go") {
				continue
			}
			src, err := os.ReadFile(name)
			if err != nil {
				continue
			}
			type edit struct {
				from, to int
				text     string
			}
			var edits []edit
			n := 0
			ast.Inspect(file, func(nd ast.Node) bool {
				rs, ok := nd.(*ast.RangeStmt)
				if !ok || rs.Tok != token.DEFINE || rs.Value == nil {
					return true
				}
				if k, ok := rs.Key.(*ast.Ident); !ok || k.Name != "_" {
					return true
				}
				val, ok := rs.Value.(*ast.Ident)
				if !ok || val.Name == "_" {
					return true
				}
				switch ast.Unparen(rs.X).(type) {
				case *ast.Ident, *ast.SelectorExpr:
				default:
					return true
				}
				tv, ok := info.Types[rs.X]
				if !ok {
					return true
				}
				if _, isSlice := tv.Type.Underlying().(*types.Slice); !isSlice {
					return true
				}
				// the ranged expression and the element variable are not assigned in the body
				assigned := false
				root := rootObj(rs.X, info)
				ast.Inspect(rs.Body, func(q ast.Node) bool {
					switch x := q.(type) {
					case *ast.AssignStmt:
						for _, l := range x.Lhs {
							if o := rootObj(l, info); o != nil && (o == root || o == info.Defs[val]) {
								assigned = true
							}
						}
					case *ast.UnaryExpr:
						if x.Op == token.AND {
							if o := rootObj(x.X, info); o != nil && (o == root || o == info.Defs[val]) {
								assigned = true
							}
						}
					case *ast.FuncLit:
						assigned = true // a closure may capture the element variable: leave the loop alone
					}
					return true
				})
				if assigned {
					return true
				}
				n++
				idx := fmt.Sprintf("i%d", n)
				xs := string(src[p.Fset.Position(rs.X.Pos()).Offset:p.Fset.Position(rs.X.End()).Offset])
				head := fmt.Sprintf("for %s := range %s {\n%s := %s[%s]\n", idx, xs, val.Name, xs, idx)
				edits = append(edits, edit{p.Fset.Position(rs.Pos()).Offset, p.Fset.Position(rs.Body.Lbrace).Offset + 1, head})
				return true
			})
			if len(edits) == 0 {
				continue
			}
			sort.Slice(edits, func(i, j int) bool { return edits[i].from > edits[j].from })
			out := string(src)
			for _, e := range edits {
				out = out[:e.from] + e.text + out[e.to:]
			}
			if formatted, err := format.Source([]byte(out)); err == nil {
				out = string(formatted)
			}
			if err := os.WriteFile(name, []byte(out), 0o644); err != nil {
				fmt.Fprintln(os.Stderr, err)
				return 2
			}
			total += len(edits)
		}
	}
	fmt.Printf("loops rewritten: %d\n", total)
	return 0
}

func rootObj(e ast.Expr, info *types.Info) types.Object {
	for {
		switch x := ast.Unparen(e).(type) {
		case *ast.Ident:
			if o := info.Uses[x]; o != nil {
				return o
			}
			return info.Defs[x]
		case *ast.SelectorExpr:
			e = x.X
		case *ast.IndexExpr:
			e = x.X
		case *ast.StarExpr:
			e = x.X
		default:
			return nil
		}
	}
}
