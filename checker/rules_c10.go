package main

import (
	"fmt"
	"go/token"
	"go/types"
	"sort"
	"strings"

	"golang.org/x/tools/go/ssa"
)

func init() { register("C10", checkC10) }

// libraryEntries: everything a client goroutine can call: exported functions of pkg and of internal/validator.
func libraryEntries(p *Prog) []*ssa.Function {
	var out []*ssa.Function
	out = append(out, p.ExportedFuncs("pkg")...)
	out = append(out, p.ExportedFuncs("internal/validator")...)
	return out
}

func checkC10(c *Ctx) {
	r, p := c.R, c.P
	r.Explanation = "Census of all package-level variables of the module and of every access to them (direct, through their address, and through aliases: values loaded from them and projections of those values, followed into module callees by per-parameter mutation summaries) in the functions reachable from the library's entry points. Decides: (G1) a variable that is written after initialisation in reach of the entry points is accessed only through sync/atomic or only in functions that hold a sync lock; (G2) shared reference-typed variables (maps, slices, pointers: the default context, the processing-data node, the deny-list, the PEG grammar table) are never mutated through any alias, and their address does not escape to code that could; (G4) no call leaves state behind in a package-level variable at all (writes under a lock, sync.Map stores, atomic stores and swaps included; monotone atomic increments excepted): synchronised caches make calls race-free but not independent of each other; (G3) no goroutine is started and no sync.Pool / unsafe / reflect-based sharing exists in the module's own code in reach. Concurrency safety of OPA's prepared query and of json-gold is the documented, trusted base."
	r.Declines = []string{"thread-safety of OPA's PreparedEvalQuery.Eval and of json-gold (documented as safe; trusted)", "interleavings as such: the rule excludes unsynchronised shared writes instead of exploring schedules"}
	r.Trusted = []string{"sync/atomic and sync.Mutex semantics", "dependencies do not retain or mutate the module values they are handed (fixed read-only list in the checker; anything else is reported)"}
	r.Rule("C10.G1", "package-level variables written after initialisation are only accessed atomically or under a lock", 1)
	r.Rule("C10.G2", "shared reference-typed package-level variables are never mutated through an alias", 4)
	r.Rule("C10.G3", "no goroutine, sync.Pool or unsafe sharing in the module's own code in reach of the entry points", 1)

	entries := libraryEntries(p)
	reach := p.Reach(entries...)
	var funcs []*ssa.Function
	for f := range reach {
		funcs = append(funcs, f)
	}
	// package initialisers run once, before any entry point
	sort.Slice(funcs, func(i, j int) bool { return FuncKey(funcs[i]) < FuncKey(funcs[j]) })
	ms := newMutationSummary(p)
	globals := moduleGlobals(p)
	r.Analysed["package_level_variables"] = len(globals)
	r.Analysed["functions_in_reach"] = len(funcs)
	mutParams := 0
	for _, m := range ms.mutates {
		mutParams += len(m)
	}
	r.Analysed["parameter_positions_mutated"] = mutParams

	for _, g := range globals {
		key := globalKey(g)
		acc := accessesOf(p, ms, g, funcs)
		var writes, aliasMut, reads, atomics, escapes []GlobalAccess
		for _, a := range acc {
			switch a.Kind {
			case "write":
				writes = append(writes, a)
			case "alias-mutation":
				aliasMut = append(aliasMut, a)
			case "read":
				reads = append(reads, a)
			case "atomic":
				atomics = append(atomics, a)
			case "address-escapes":
				escapes = append(escapes, a)
			}
		}
		pos := p.Pos(g.Pos())
		describe := func(as []GlobalAccess) string {
			var parts []string
			for _, a := range as {
				parts = append(parts, fmt.Sprintf("%s (%s) at %s", FuncKey(a.Fn), a.Detail, p.Pos(a.Instr.Pos())))
			}
			sort.Strings(parts)
			if len(parts) > 6 {
				parts = append(parts[:6], fmt.Sprintf("... %d more", len(parts)-6))
			}
			return strings.Join(parts, "; ")
		}
		// G1
		switch {
		case len(writes) == 0 && len(atomics) == 0:
			if len(acc) > 0 {
				r.OK("C10.G1", key, pos, fmt.Sprintf("never written after initialisation in reach of the entry points (%d reads)", len(reads)))
			}
		case len(writes) == 0 && len(atomics) > 0 && len(reads) == 0:
			// an atomic counter shared by concurrent calls must be monotone: a Store/Swap (reset) in reach of the entry
			// points lets one call invalidate the values another call is still handing out
			var resets []GlobalAccess
			for _, a := range atomics {
				if strings.Contains(a.Detail, ".Store") || strings.Contains(a.Detail, ".Swap") || strings.Contains(a.Detail, ".CompareAndSwap") {
					resets = append(resets, a)
				}
			}
			if len(resets) > 0 {
				r.Bad("C10.G1", key, pos, "the shared atomic variable is reset in reach of the entry points, so concurrent calls interfere (names handed out by one call are reused by another): "+describe(resets))
			} else {
				r.OK("C10.G1", key, pos, fmt.Sprintf("accessed only through sync/atomic, monotonically (%d sites)", len(atomics)))
			}
		default:
			allLocked := true
			for _, a := range append(append([]GlobalAccess{}, writes...), reads...) {
				if !a.Locked {
					allLocked = false
				}
			}
			if allLocked && len(atomics) == 0 {
				r.OK("C10.G1", key, pos, fmt.Sprintf("%d writes and %d reads, all in functions that hold a sync lock", len(writes), len(reads)))
			} else {
				r.Bad("C10.G1", key, pos, "shared variable with unsynchronised access: writes: "+describe(writes)+"; plain reads: "+describe(reads)+func() string {
					if len(atomics) > 0 {
						return "; mixed with atomic access: " + describe(atomics)
					}
					return ""
				}())
			}
		}
		// G2
		if refLike(g) {
			switch {
			case len(aliasMut) > 0:
				lockedAll := true
				for _, a := range aliasMut {
					if !a.Locked {
						lockedAll = false
					}
				}
				if lockedAll && allLockedAccess(reads) {
					r.OK("C10.G2", key, pos, "mutated through aliases only under a lock, and read under it")
				} else {
					r.Bad("C10.G2", key, pos, "the shared value is mutated through an alias: "+describe(aliasMut))
				}
			case len(escapes) > 0:
				r.Unknown("C10.G2", key, pos, "the variable's address escapes to code that is not analysed: "+describe(escapes))
			default:
				if len(acc) > 0 {
					r.OK("C10.G2", key, pos, "no mutation through any alias; the address does not escape")
				}
			}
		}
	}

	// G4: isolation. Synchronisation makes shared state race-free, not invisible: a value one call leaves in a package-level
	// variable (a cache, a memo table, a pool of slots) is observed by the next or by a concurrent call, which then no longer
	// computes its result from its own arguments alone. Only monotone atomic counters (fresh names) are exempt.
	r.Rule("C10.G4", "no call leaves state behind in a package-level variable (caches, memo tables, slots), synchronised or not", 1)
	shared := 0
	for _, g := range globals {
		if w := crossCallWrites(p, ms, g, funcs); len(w) > 0 {
			shared++
			if len(w) > 4 {
				w = append(w[:4], fmt.Sprintf("... %d more", len(w)-4))
			}
			r.Bad("C10.G4", globalKey(g), p.Pos(g.Pos()), "a call leaves state in this package-level variable that other calls read (a transparent cache would need a proof that its key determines the value; none is attempted): "+strings.Join(w, "; "))
		}
	}
	r.OK("C10.G4", "census", "", fmt.Sprintf("%d package-level variables examined over %d functions in reach of the entry points: %d hold cross-call state", len(globals), len(funcs), shared))

	// G5: a package-level channel (a semaphore, a queue, a pool of slots) couples the calls: a slot taken by one call and not
	// given back on every exit is missing for all later ones
	r.Rule("C10.G5", "no package-level channel is used in reach of the entry points", 1)
	chanUses := 0
	fromGlobalChan := func(v ssa.Value) *ssa.Global {
		if u, ok := v.(*ssa.UnOp); ok && u.Op == token.MUL {
			if g, ok := u.X.(*ssa.Global); ok {
				if _, isChan := elemOfPointer(g).Underlying().(*types.Chan); isChan {
					return g
				}
			}
		}
		return nil
	}
	for _, f := range funcs {
		for _, b := range f.Blocks {
			for _, ins := range b.Instrs {
				var g *ssa.Global
				switch x := ins.(type) {
				case *ssa.Send:
					g = fromGlobalChan(x.Chan)
				case *ssa.UnOp:
					if x.Op == token.ARROW {
						g = fromGlobalChan(x.X)
					}
				case *ssa.Select:
					for _, st := range x.States {
						if gg := fromGlobalChan(st.Chan); gg != nil {
							g = gg
						}
					}
				}
				if g != nil {
					chanUses++
					r.Bad("C10.G5", FuncKey(f)+"#"+globalKey(g), p.Pos(ins.Pos()), "a package-level channel is sent to or received from in reach of the entry points: calls wait for each other, and a slot that is not returned on an error or panic path blocks every later call")
				}
			}
		}
	}
	if chanUses == 0 {
		r.OK("C10.G5", "census", "", fmt.Sprintf("%d functions scanned: no send, receive or select on a package-level channel", len(funcs)))
	}

	// G6: a package-level variable holding a dependency's object (a JSON-LD processor, options carrying a document loader, a
	// compiler, a client) shares whatever mutable state that object has inside the dependency, where this analysis cannot see
	// writes: only plain data tables and the types the module defines itself may live at package level
	r.Rule("C10.G6", "no package-level variable holds an object of a dependency (its internal state would be shared by all calls)", 1)
	depGlobals := 0
	for _, g := range globals {
		dep := dependencyTypeIn(elemOfPointer(g), 0)
		if dep == "" {
			continue
		}
		used := false
		for _, a := range accessesOf(p, ms, g, funcs) {
			_ = a
			used = true
		}
		if !used {
			continue
		}
		depGlobals++
		r.Bad("C10.G6", globalKey(g), p.Pos(g.Pos()), "the variable holds a "+dep+" shared by every call in reach of the entry points: state the dependency keeps inside it (caches, loaders, buffers) is written by concurrent calls without any synchronisation this module controls, and one call observes what another one loaded")
	}
	if depGlobals == 0 {
		r.OK("C10.G6", "census", "", fmt.Sprintf("%d package-level variables: none holds an object of a dependency", len(globals)))
	}
	// G7: registries of the dependencies are process-wide state too
	r.Rule("C10.G7", "no process-wide registry of a dependency is written in reach of the entry points", 1)
	regs := 0
	for _, f := range funcs {
		for _, b := range f.Blocks {
			for _, ins := range b.Instrs {
				ci, ok := ins.(ssa.CallInstruction)
				if !ok {
					continue
				}
				n := funcFullName(ssaCalleeObj(ci))
				short := n[strings.LastIndex(n, ".")+1:]
				if strings.HasPrefix(n, opaPath+"/") && (strings.HasPrefix(short, "RegisterBuiltin") || short == "RegisterPlugin" || short == "RegisterStore") {
					regs++
					r.Bad("C10.G7", FuncKey(f)+"#"+short, p.Pos(ins.Pos()), n+" writes a registry that the whole process shares: a compilation changes what the profiles already compiled mean, and concurrent compilations and evaluations race on it")
				}
			}
		}
	}
	if regs == 0 {
		r.OK("C10.G7", "census", "", "no RegisterBuiltin* / RegisterPlugin call in reach of the entry points")
	}

	// G3
	gos, pools, unsafes := 0, 0, 0
	for _, f := range funcs {
		for _, b := range f.Blocks {
			for _, ins := range b.Instrs {
				switch x := ins.(type) {
				case *ssa.Go:
					gos++
					r.Bad("C10.G3", FuncKey(f)+"#go", p.Pos(ins.Pos()), "goroutine started inside the library")
				case ssa.CallInstruction:
					n := funcFullName(ssaCalleeObj(x))
					if strings.HasPrefix(n, "(*sync.Pool)") {
						pools++
					}
					if strings.HasPrefix(n, "unsafe.") || strings.HasPrefix(n, "reflect.") {
						unsafes++
						if !isGeneratedParserFunc(p, f) {
							r.Unknown("C10.G3", FuncKey(f)+"#"+n, p.Pos(ins.Pos()), "unsafe/reflect use in reach of the entry points")
						}
					}
				}
			}
		}
	}
	r.Analysed["sync_pool_calls"] = pools
	r.OK("C10.G3", "census", "", fmt.Sprintf("%d functions scanned: %d go statements, %d sync.Pool calls (get/put in the generated parser), %d unsafe/reflect calls", len(funcs), gos, pools, unsafes))
}

func allLockedAccess(as []GlobalAccess) bool {
	for _, a := range as {
		if !a.Locked {
			return false
		}
	}
	return true
}

func refLike(g *ssa.Global) bool { return refTypeDeep(elemOfPointer(g)) }

// dependencyTypeIn: the type is, points to, or contains a named struct/interface type declared in a dependency (not the
// standard library, not this module). Plain maps and slices of basic types and of standard-library types are data.
func dependencyTypeIn(t types.Type, depth int) string {
	if depth > 4 {
		return ""
	}
	switch u := t.(type) {
	case *types.Named:
		if u.Obj().Pkg() != nil {
			path := u.Obj().Pkg().Path()
			if !isStdlib(path) && !strings.HasPrefix(path, ModulePath) {
				switch u.Underlying().(type) {
				case *types.Struct, *types.Interface:
					return u.Obj().Pkg().Name() + "." + u.Obj().Name()
				}
			}
		}
		return dependencyTypeIn(u.Underlying(), depth+1)
	case *types.Pointer:
		return dependencyTypeIn(u.Elem(), depth+1)
	case *types.Slice:
		return dependencyTypeIn(u.Elem(), depth+1)
	case *types.Array:
		return dependencyTypeIn(u.Elem(), depth+1)
	case *types.Map:
		if d := dependencyTypeIn(u.Key(), depth+1); d != "" {
			return d
		}
		return dependencyTypeIn(u.Elem(), depth+1)
	case *types.Struct:
		for i := 0; i < u.NumFields(); i++ {
			if d := dependencyTypeIn(u.Field(i).Type(), depth+1); d != "" {
				return d
			}
		}
	}
	return ""
}
