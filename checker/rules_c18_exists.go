package main

import (
	"fmt"
	"go/token"
	"syscall"

	"golang.org/x/tools/go/ssa"
)

// c18AbsentFileCreated (W14): "with an output path it leaves that file containing exactly that report whatever the file
// held before (absent, ...)".  A call of os.OpenFile that opens for writing WITHOUT O_CREATE fails on a path that does
// not exist yet, so every such call (followed to the call sites of its wrappers while the path is a parameter) must sit
// on the branch of an existence test of the same path on which the file exists.  The polarity of the test is computed
// on SSA: os.Stat/os.Lstat(path) gives err; `err == nil` is +, `err != nil`, errors.Is(err, os.ErrNotExist) and
// os.IsNotExist(err) are -, `!x` flips, a module function is judged by every one of its returns (a constant return by
// the polarity of the branch it sits on).  Found by the second mutation survey (ExistsFile inverted).
func c18AbsentFileCreated(c *Ctx) {
	r, p := c.R, c.P
	r.Rule("C18.W14", "a file opened for writing without O_CREATE is opened only where an existence test of the same path said it exists", 0)
	type site struct {
		call ssa.CallInstruction
		path ssa.Value
		fn   *ssa.Function
	}
	var work []site
	for _, fn := range p.ModuleFuncs() {
		if !isCmdPkg(RelPkg(fn)) {
			continue
		}
		for _, b := range fn.Blocks {
			for _, ins := range b.Instrs {
				call, ok := ins.(ssa.CallInstruction)
				if !ok || funcFullName(ssaCalleeObj(call)) != "os.OpenFile" || len(call.Common().Args) < 2 {
					continue
				}
				fl, ok := call.Common().Args[1].(*ssa.Const)
				if !ok || fl.Value == nil {
					continue // W1 reports flags that are not constant
				}
				flags := int(fl.Int64())
				if flags&(syscall.O_WRONLY|syscall.O_RDWR) == 0 || flags&syscall.O_CREAT != 0 {
					continue
				}
				work = append(work, site{call, call.Common().Args[0], fn})
			}
		}
	}
	r.Analysed["W14_non_creating_write_opens"] = len(work)
	ord := ordinal{}
	seen := map[ssa.CallInstruction]bool{}
	for depth := 0; len(work) > 0 && depth < 6; depth++ {
		var next []site
		for _, s := range work {
			if seen[s.call] {
				continue
			}
			seen[s.call] = true
			k := ord.next(FuncKey(s.fn) + "#non-creating-open")
			pol, why := guardPolarity(s.call.Block(), s.path, 0)
			switch {
			case pol > 0:
				r.OK("C18.W14", k, p.Pos(s.call.Pos()), "reached only where "+why)
			case pol < 0:
				r.Bad("C18.W14", k, p.Pos(s.call.Pos()), "the file is opened without O_CREATE on the branch where "+why+": a report written to a path that does not exist yet fails (and an existing file goes through the other branch)")
			default:
				prm, isParam := s.path.(*ssa.Parameter)
				if !isParam || s.fn.Parent() != nil {
					r.Bad("C18.W14", k, p.Pos(s.call.Pos()), "the file is opened for writing without O_CREATE and no existence test of this path guards the call: writing the report to a path that does not exist yet fails")
					continue
				}
				idx := -1
				for i, q := range s.fn.Params {
					if q == prm {
						idx = i
					}
				}
				n := 0
				for _, caller := range p.ModuleFuncs() {
					for _, b := range caller.Blocks {
						for _, ins := range b.Instrs {
							ci, ok := ins.(ssa.CallInstruction)
							if ok && ci.Common().StaticCallee() == s.fn && idx >= 0 && idx < len(ci.Common().Args) {
								next = append(next, site{ci, ci.Common().Args[idx], caller})
								n++
							}
						}
					}
				}
				r.OK("C18.W14", k, p.Pos(s.call.Pos()), fmt.Sprintf("the path is a parameter: the obligation moves to the %d call site(s) of %s", n, s.fn.Name()))
			}
		}
		work = next
	}
	for _, s := range work {
		r.Unknown("C18.W14", FuncKey(s.fn)+"#depth", p.Pos(s.call.Pos()), "wrapper chain deeper than 6")
	}
}

// guardPolarity: +1 when block b is reached only through the "exists" outcome of an existence test of path, -1 when only
// through the "does not exist" outcome, 0 when no such test dominates it.
func guardPolarity(b *ssa.BasicBlock, path ssa.Value, depth int) (int, string) {
	for d := b; d != nil; d = d.Idom() {
		id := d.Idom()
		if id == nil || len(id.Instrs) == 0 {
			continue
		}
		iff, ok := id.Instrs[len(id.Instrs)-1].(*ssa.If)
		if !ok || len(id.Succs) != 2 || id.Succs[0] == id.Succs[1] {
			continue
		}
		edge := 0
		switch {
		case id.Succs[0] == d && len(d.Preds) == 1:
			edge = +1
		case id.Succs[1] == d && len(d.Preds) == 1:
			edge = -1
		default:
			continue
		}
		pol, why := existsPolarity(iff.Cond, path, depth)
		if pol != 0 {
			return pol * edge, why + map[int]string{1: " holds", -1: " does not hold"}[edge]
		}
	}
	return 0, ""
}

// existsPolarity: +1 when the boolean v is true exactly when path exists, -1 when it is true exactly when it does not,
// 0 when v is not recognised as an existence test of path.
func existsPolarity(v ssa.Value, path ssa.Value, depth int) (int, string) {
	if depth > 6 {
		return 0, ""
	}
	statErr := func(e ssa.Value) bool {
		ex, ok := e.(*ssa.Extract)
		if !ok || ex.Index != 1 {
			return false
		}
		call, ok := ex.Tuple.(*ssa.Call)
		if !ok || len(call.Call.Args) != 1 || call.Call.Args[0] != path {
			return false
		}
		n := funcFullName(ssaCalleeObj(call))
		return n == "os.Stat" || n == "os.Lstat"
	}
	isNil := func(e ssa.Value) bool { c, ok := e.(*ssa.Const); return ok && c.IsNil() }
	switch x := v.(type) {
	case *ssa.UnOp:
		if x.Op == token.NOT {
			pol, why := existsPolarity(x.X, path, depth+1)
			return -pol, "not (" + why + ")"
		}
	case *ssa.BinOp:
		if x.Op == token.EQL || x.Op == token.NEQ {
			var e ssa.Value
			switch {
			case isNil(x.Y):
				e = x.X
			case isNil(x.X):
				e = x.Y
			}
			if e != nil && statErr(e) {
				if x.Op == token.EQL {
					return +1, "os.Stat gave no error"
				}
				return -1, "os.Stat gave an error"
			}
		}
	case *ssa.Call:
		switch funcFullName(ssaCalleeObj(x)) {
		case "errors.Is":
			if len(x.Call.Args) == 2 && statErr(x.Call.Args[0]) && isErrNotExist(x.Call.Args[1]) {
				return -1, "os.Stat said the file does not exist"
			}
			return 0, ""
		case "os.IsNotExist":
			if len(x.Call.Args) == 1 && statErr(x.Call.Args[0]) {
				return -1, "os.Stat said the file does not exist"
			}
			return 0, ""
		case "os.IsExist":
			return 0, ""
		}
		g := x.Call.StaticCallee()
		if g == nil || !IsModuleFunc(g) || len(g.Blocks) == 0 || g.Signature.Results().Len() != 1 {
			return 0, ""
		}
		idx := -1
		for i, a := range x.Call.Args {
			if a == path {
				idx = i
			}
		}
		if idx < 0 || idx >= len(g.Params) {
			return 0, ""
		}
		inner := ssa.Value(g.Params[idx])
		total, n := 0, 0
		for _, b := range g.Blocks {
			ret, ok := b.Instrs[len(b.Instrs)-1].(*ssa.Return)
			if !ok || len(ret.Results) != 1 {
				continue
			}
			n++
			pol := 0
			if cst, ok := ret.Results[0].(*ssa.Const); ok && cst.Value != nil {
				gp, _ := guardPolarity(b, inner, depth+1)
				if cst.Value.String() == "true" {
					pol = gp
				} else {
					pol = -gp
				}
			} else {
				pol, _ = existsPolarity(ret.Results[0], inner, depth+1)
			}
			if pol == 0 {
				return 0, ""
			}
			total += pol
		}
		switch {
		case n > 0 && total == n:
			return +1, g.Name() + " (true when os.Stat finds the file)"
		case n > 0 && total == -n:
			return -1, g.Name() + " (true when os.Stat does NOT find the file)"
		}
	}
	return 0, ""
}

func isErrNotExist(v ssa.Value) bool {
	u, ok := v.(*ssa.UnOp)
	if !ok || u.Op != token.MUL {
		return false
	}
	g, ok := u.X.(*ssa.Global)
	if !ok || g.Pkg == nil || g.Pkg.Pkg == nil {
		return false
	}
	return (g.Pkg.Pkg.Path() == "os" && g.Name() == "ErrNotExist") || (g.Pkg.Pkg.Path() == "io/fs" && g.Name() == "ErrNotExist")
}
