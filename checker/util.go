package main

import (
	"go/ast"
	"go/constant"
	"go/token"
	"go/types"
	"sort"
	"strconv"
	"strings"

	"golang.org/x/tools/go/packages"
	"golang.org/x/tools/go/ssa"
	"golang.org/x/tools/go/types/typeutil"
)

const opaPath = "github.com/open-policy-agent/opa"

// AnyPkg finds a loaded package (module or dependency) by full import path.
func (p *Prog) AnyPkg(path string) *packages.Package {
	for _, pk := range p.All {
		if pk.PkgPath == path {
			return pk
		}
	}
	return nil
}

// calleeOf resolves the statically known callee of a call expression (function, method or nil).
func calleeOf(info *types.Info, call *ast.CallExpr) types.Object {
	return typeutil.Callee(info, call)
}

// objPkgPath returns the import path of the package declaring obj ("" for builtins/universe).
func objPkgPath(obj types.Object) string {
	if obj == nil || obj.Pkg() == nil {
		return ""
	}
	return obj.Pkg().Path()
}

// isFunc reports whether obj is the package-level function pkgPath.name.
func isFunc(obj types.Object, pkgPath, name string) bool {
	f, ok := obj.(*types.Func)
	if !ok || f.Name() != name || objPkgPath(f) != pkgPath {
		return false
	}
	sig := f.Type().(*types.Signature)
	return sig.Recv() == nil
}

// isMethod reports whether obj is a method named name whose receiver's named type is pkgPath.typeName.
func isMethod(obj types.Object, pkgPath, typeName, name string) bool {
	f, ok := obj.(*types.Func)
	if !ok || f.Name() != name {
		return false
	}
	sig := f.Type().(*types.Signature)
	if sig.Recv() == nil {
		return false
	}
	n := namedOf(sig.Recv().Type())
	return n != nil && n.Obj().Name() == typeName && objPkgPath(n.Obj()) == pkgPath
}

// recvTypeName returns "Type" for a method object, "" otherwise.
func recvTypeName(obj types.Object) string {
	f, ok := obj.(*types.Func)
	if !ok {
		return ""
	}
	sig := f.Type().(*types.Signature)
	if sig.Recv() == nil {
		return ""
	}
	if n := namedOf(sig.Recv().Type()); n != nil {
		return n.Obj().Name()
	}
	return ""
}

// constString returns the compile-time string value of e, if it has one.
func constString(info *types.Info, e ast.Expr) (string, bool) {
	if tv, ok := info.Types[e]; ok && tv.Value != nil && tv.Value.Kind() == constant.String {
		return constant.StringVal(tv.Value), true
	}
	return "", false
}

// constInt returns the compile-time integer value of e, if it has one.
func constInt(info *types.Info, e ast.Expr) (int64, bool) {
	if tv, ok := info.Types[e]; ok && tv.Value != nil && tv.Value.Kind() == constant.Int {
		v, exact := constant.Int64Val(tv.Value)
		return v, exact
	}
	return 0, false
}

// varInitializer finds the initializer expression of a package-level variable in the syntax of its package.
func (p *Prog) varInitializer(v *types.Var) (ast.Expr, *packages.Package) {
	if v == nil || v.Pkg() == nil {
		return nil, nil
	}
	pk := p.AnyPkg(v.Pkg().Path())
	if pk == nil {
		return nil, nil
	}
	for _, f := range pk.Syntax {
		for _, d := range f.Decls {
			gd, ok := d.(*ast.GenDecl)
			if !ok || gd.Tok != token.VAR {
				continue
			}
			for _, s := range gd.Specs {
				vs := s.(*ast.ValueSpec)
				for i, n := range vs.Names {
					if pk.TypesInfo.Defs[n] == v && i < len(vs.Values) {
						return vs.Values[i], pk
					}
				}
			}
		}
	}
	return nil, pk
}

// compositeField returns the value of field `name` in a (possibly &-prefixed) composite literal.
func compositeField(e ast.Expr, name string) ast.Expr {
	if u, ok := e.(*ast.UnaryExpr); ok && u.Op == token.AND {
		e = u.X
	}
	cl, ok := e.(*ast.CompositeLit)
	if !ok {
		return nil
	}
	for _, el := range cl.Elts {
		if kv, ok := el.(*ast.KeyValueExpr); ok {
			if id, ok := kv.Key.(*ast.Ident); ok && id.Name == name {
				return kv.Value
			}
		}
	}
	return nil
}

// resolveString evaluates e to a string: a constant, or X.F where X is a package-level variable initialised with
// a composite literal whose field F is a constant string (ast.HTTPSend.Name -> "http.send").
func (p *Prog) resolveString(info *types.Info, e ast.Expr) (string, bool) {
	if s, ok := constString(info, e); ok {
		return s, true
	}
	e = ast.Unparen(e)
	sel, ok := e.(*ast.SelectorExpr)
	if !ok {
		return "", false
	}
	var base types.Object
	switch x := ast.Unparen(sel.X).(type) {
	case *ast.Ident:
		base = info.Uses[x]
	case *ast.SelectorExpr:
		base = info.Uses[x.Sel]
	}
	v, ok := base.(*types.Var)
	if !ok || v.Parent() == nil || v.Pkg() == nil || v.Parent() != v.Pkg().Scope() {
		return "", false
	}
	init, pk := p.varInitializer(v)
	if init == nil {
		return "", false
	}
	fv := compositeField(init, sel.Sel.Name)
	if fv == nil {
		return "", false
	}
	return constString(pk.TypesInfo, fv)
}

// walkFuncs calls f for every function declaration and function literal body in the package's non-test syntax.
func eachFile(pk *packages.Package, f func(file *ast.File)) {
	for _, file := range pk.Syntax {
		f(file)
	}
}

// enclosingFuncName returns "Func" or "Type.Method" of the declaration containing pos in pk.
func enclosingFuncName(pk *packages.Package, pos token.Pos) string {
	for _, file := range pk.Syntax {
		if pos < file.Pos() || pos > file.End() {
			continue
		}
		for _, d := range file.Decls {
			fd, ok := d.(*ast.FuncDecl)
			if !ok || pos < fd.Pos() || pos > fd.End() {
				continue
			}
			if fd.Recv != nil && len(fd.Recv.List) == 1 {
				t := fd.Recv.List[0].Type
				if st, ok := t.(*ast.StarExpr); ok {
					t = st.X
				}
				if id, ok := t.(*ast.Ident); ok {
					return id.Name + "." + fd.Name.Name
				}
			}
			return fd.Name.Name
		}
		return "<package-level>"
	}
	return "<unknown>"
}

// relOf returns the module-relative path of a module package.
func relOf(pk *packages.Package) string {
	return strings.TrimPrefix(strings.TrimPrefix(pk.PkgPath, ModulePath), "/")
}

// modPkgsSorted returns the module packages in a stable order.
func (p *Prog) modPkgsSorted() []*packages.Package {
	var out []*packages.Package
	for _, pk := range p.Mod {
		out = append(out, pk)
	}
	sort.Slice(out, func(i, j int) bool { return out[i].PkgPath < out[j].PkgPath })
	return out
}

// ordinal disambiguates repeated constructs inside one function: key, key#2, key#3 ...
type ordinal map[string]int

func (o ordinal) next(key string) string {
	o[key]++
	if o[key] == 1 {
		return key
	}
	return key + "#" + strconv.Itoa(o[key])
}

// staticCallee returns the called function of an SSA call instruction when it is statically known.
func staticCallee(c ssa.CallInstruction) *ssa.Function {
	return c.Common().StaticCallee()
}

// ssaCalleeObj returns the types.Object of the callee of a call (function or interface method).
func ssaCalleeObj(c ssa.CallInstruction) types.Object {
	cc := c.Common()
	if cc.IsInvoke() {
		return cc.Method
	}
	if f := cc.StaticCallee(); f != nil {
		if o := f.Object(); o != nil {
			return o
		}
	}
	return nil
}

func sortedKeys[V any](m map[string]V) []string {
	out := make([]string, 0, len(m))
	for k := range m {
		out = append(out, k)
	}
	sort.Strings(out)
	return out
}

// typeAssertsOnForwarded collects the type assertions applied to the value of parameter prm of fn, following the value
// when it is handed unchanged to functions of the same package (the parameter of a helper the value is forwarded to is
// the same document). Depth-bounded.
func typeAssertsOnForwarded(fn *ssa.Function, prm *ssa.Parameter, depth int) []*ssa.TypeAssert {
	var out []*ssa.TypeAssert
	if depth > 4 || prm == nil {
		return out
	}
	for _, ref := range nonDebugRefs(prm) {
		switch x := ref.(type) {
		case *ssa.TypeAssert:
			out = append(out, x)
		case *ssa.Call:
			callee := x.Call.StaticCallee()
			if callee == nil || !IsModuleFunc(callee) || callee.Blocks == nil || RelPkg(callee) != RelPkg(fn) {
				continue
			}
			for i, a := range x.Call.Args {
				if a == ssa.Value(prm) && i < len(callee.Params) {
					out = append(out, typeAssertsOnForwarded(callee, callee.Params[i], depth+1)...)
				}
			}
		}
	}
	return out
}

// samePkgReach: fn and the functions of its own package reachable from it through static calls.
func samePkgReach(p *Prog, fn *ssa.Function) []*ssa.Function {
	seen := map[*ssa.Function]bool{fn: true}
	work := []*ssa.Function{fn}
	for len(work) > 0 {
		f := work[0]
		work = work[1:]
		for _, c := range p.ModuleCallees(f) {
			if !seen[c] && RelPkg(c) == RelPkg(fn) && c.Blocks != nil {
				seen[c] = true
				work = append(work, c)
			}
		}
	}
	var out []*ssa.Function
	for f := range seen {
		out = append(out, f)
	}
	sort.Slice(out, func(i, j int) bool { return FuncKey(out[i]) < FuncKey(out[j]) })
	return out
}

// ---- printf wrappers: module functions that hand (format, args...) on to fmt.Sprintf are treated like fmt.Sprintf by
// every rule that looks for templates, so that `lines.addf("%s = [ %s|", a, b)` is the same template site as
// `lines = append(lines, fmt.Sprintf("%s = [ %s|", a, b))`.

var loadedProgs []*Prog

var printfWrapperMemo = map[*types.Func]int{}

// printfWrapperIndex: fn is fmt.Sprintf (index 0) or a module function with parameters (..., format string, args ...any)
// whose body calls fmt.Sprintf (or another such function) with exactly (format, args...); returns the index of the format
// parameter among the signature's parameters (the receiver is not counted).
func printfWrapperIndex(fn *types.Func) (int, bool) {
	return printfWrapperIndexDepth(fn, 0)
}

func printfWrapperIndexDepth(fn *types.Func, depth int) (int, bool) {
	if fn == nil {
		return 0, false
	}
	if funcFullName(fn) == "fmt.Sprintf" {
		return 0, true
	}
	if v, ok := printfWrapperMemo[fn]; ok {
		return v, v >= 0
	}
	printfWrapperMemo[fn] = -1
	sig, ok := fn.Type().(*types.Signature)
	if !ok || !sig.Variadic() || sig.Params().Len() < 2 || depth > 3 {
		return 0, false
	}
	fi := sig.Params().Len() - 2
	if !isStringType(sig.Params().At(fi).Type()) {
		return 0, false
	}
	for _, p := range loadedProgs {
		fd, pk := p.findDecl(fn)
		if fd == nil || fd.Body == nil {
			continue
		}
		var names []*ast.Ident
		for _, f := range fd.Type.Params.List {
			names = append(names, f.Names...)
		}
		if len(names) != sig.Params().Len() {
			return 0, false
		}
		fobj, vobj := pk.TypesInfo.Defs[names[fi]], pk.TypesInfo.Defs[names[fi+1]]
		found := false
		ast.Inspect(fd.Body, func(n ast.Node) bool {
			call, ok := n.(*ast.CallExpr)
			if !ok || found || !call.Ellipsis.IsValid() {
				return true
			}
			callee, _ := calleeOf(pk.TypesInfo, call).(*types.Func)
			k, ok := printfWrapperIndexDepth(callee, depth+1)
			if !ok || len(call.Args) != k+2 {
				return true
			}
			a0, ok0 := ast.Unparen(call.Args[k]).(*ast.Ident)
			a1, ok1 := ast.Unparen(call.Args[k+1]).(*ast.Ident)
			if ok0 && ok1 && pk.TypesInfo.Uses[a0] == fobj && pk.TypesInfo.Uses[a1] == vobj {
				found = true
			}
			return true
		})
		if found {
			printfWrapperMemo[fn] = fi
			return fi, true
		}
		return 0, false
	}
	return 0, false
}

// normSprintf: when call is fmt.Sprintf or a printf wrapper, a view of it whose Args are [format, operands...].
func normSprintf(info *types.Info, call *ast.CallExpr) (*ast.CallExpr, bool) {
	fn, _ := calleeOf(info, call).(*types.Func)
	k, ok := printfWrapperIndex(fn)
	if !ok || len(call.Args) <= k || call.Ellipsis.IsValid() && k > 0 {
		return nil, false
	}
	if k == 0 {
		return call, true
	}
	cp := *call
	cp.Args = call.Args[k:]
	return &cp, true
}

// ssaSprintf: when the call is fmt.Sprintf or a printf wrapper, its format operand and its packed operand slice (nil
// when there is none).  forwarding: the call sits inside a wrapper and merely hands the wrapper's own parameters on.
func ssaSprintf(call ssa.CallInstruction) (format ssa.Value, packed ssa.Value, forwarding bool, ok bool) {
	cc := call.Common()
	var fn *types.Func
	if callee := cc.StaticCallee(); callee != nil {
		if callee.Origin() != nil {
			callee = callee.Origin()
		}
		fn, _ = callee.Object().(*types.Func)
	}
	if fn == nil {
		fn, _ = ssaCalleeObj(call).(*types.Func)
	}
	k, isW := printfWrapperIndex(fn)
	if !isW {
		return nil, nil, false, false
	}
	if sig, _ := fn.Type().(*types.Signature); sig != nil && sig.Recv() != nil && !cc.IsInvoke() {
		k++
	}
	if len(cc.Args) <= k {
		return nil, nil, false, false
	}
	format = cc.Args[k]
	if len(cc.Args) > k+1 {
		packed = cc.Args[k+1]
	}
	if prm, isP := format.(*ssa.Parameter); isP && call.Parent() != nil {
		if pf, _ := call.Parent().Object().(*types.Func); pf != nil {
			if _, isWrapper := printfWrapperIndex(pf); isWrapper && funcFullName(pf) != "fmt.Sprintf" {
				_ = prm
				forwarding = true
			}
		}
	}
	return format, packed, forwarding, true
}

func isSprintfLike(call ssa.CallInstruction) bool {
	_, _, _, ok := ssaSprintf(call)
	return ok
}

func sortFuncs(fs []*ssa.Function) {
	sort.Slice(fs, func(i, j int) bool { return FuncKey(fs[i]) < FuncKey(fs[j]) })
}
